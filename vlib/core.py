"""vcheck core: builds proof obligations from /repo's working tree, runs goto-cc / goto-instrument --dfcc / cbmc,
classifies results, replays counterexamples natively and writes evidence.

Exit codes of a property check:  0 holds / 1 VIOLATION (a line is printed) / 2 UNDECIDED (tool limit, timeout,
contract no longer matches the code shape, vacuous harness) - never reported as a violation.
"""
import concurrent.futures as cf
import hashlib
import json
import os
import re
import resource
import shlex
import shutil
import subprocess
import sys
import time

VERIF = os.path.dirname(os.path.dirname(os.path.abspath(__file__)))
REPO = os.environ.get("VERIF_REPO", "/repo")
SRC = os.path.join(REPO, "src", "libsodium")
WORK = os.environ.get("VERIF_WORK", os.path.join(VERIF, "work"))
REPLAY_OUT = os.environ.get("VERIF_REPLAY_OUT", os.path.join(VERIF, "replay", "out"))
SHIMS = os.path.join(VERIF, "bin", "solver-shims")

# defines that select code CBMC cannot model (assembly) - always removed in the verified configuration
DROP_ALWAYS = {"HAVE_AMD64_ASM", "HAVE_AVX_ASM", "HAVE_INLINE_ASM"}
# SIMD / hardware switches - removed unless an obligation asks for them with keep=[...]
DROP_SIMD = {"HAVE_MMINTRIN_H", "HAVE_EMMINTRIN_H", "HAVE_PMMINTRIN_H", "HAVE_TMMINTRIN_H", "HAVE_SMMINTRIN_H",
             "HAVE_AVXINTRIN_H", "HAVE_AVX2INTRIN_H", "HAVE_AVX512FINTRIN_H", "HAVE_WMMINTRIN_H", "HAVE_RDRAND",
             "HAVE_CPUID", "HAVE_CET_H"}
SAFETY = ["--bounds-check", "--pointer-check", "--pointer-overflow-check", "--signed-overflow-check",
          "--undefined-shift-check", "--div-by-zero-check"]
INCLUDES = ["-I" + os.path.join(VERIF, "include"), "-I" + os.path.join(VERIF, "contracts"),
            "-I" + os.path.join(VERIF, "specs"), "-I" + os.path.join(VERIF, "stubs"),
            "-I" + os.path.join(VERIF, "harness"),
            "-I" + os.path.join(SRC, "include"), "-I" + os.path.join(SRC, "include", "sodium"), "-I" + SRC]

TRUSTED_BASE = [
    "cbmc 6.11.0 front end (goto-cc), goto-instrument --dfcc contract instrumentation, symbolic execution",
    "SAT/SMT back ends: minisat2 (built in), kissat 4.0.1, z3 5.1.0 (z3-new)",
    "CBMC's x86-64 LP64 little-endian machine model and its models of memcpy/memmove/memset/strlen/strchr",
    "verified configuration = the repository's configure DEFS minus HAVE_AMD64_ASM/HAVE_AVX_ASM/HAVE_INLINE_ASM "
    "and (unless stated) the SIMD header switches: assembly and intrinsics back ends are not covered",
]


def all_defs():
    """configure-time DEFS of the repository (current Makefile, else the pinned copy)"""
    txt = None
    mk = os.path.join(REPO, "Makefile")
    if os.path.exists(mk):
        m = re.search(r"^DEFS = (.*)$", open(mk).read(), re.M)
        if m:
            txt = m.group(1)
    if txt is None:
        txt = open(os.path.join(VERIF, "config", "defs.txt")).read()
    return shlex.split(txt)


def verif_defs(keep=(), extra=(), drop=()):
    out = []
    for d in all_defs():
        name = d[2:].split("=")[0]
        if name in drop:
            continue
        if name in DROP_ALWAYS:
            continue
        if name in DROP_SIMD and name not in keep:
            continue
        if name.startswith("PACKAGE") or name in ("VERSION", "LT_OBJDIR"):
            continue
        out.append(d)
    out += ["-DDEV_MODE=1", "-DSODIUM_VERIF=1"]
    out += list(extra)
    return out


def default_defs(extra=()):
    out = [d for d in all_defs() if not (d[2:].startswith("PACKAGE") or d[2:].startswith("VERSION") or d[2:].startswith("LT_OBJDIR"))]
    return out + ["-DDEV_MODE=1", "-DSODIUM_VERIF=1"] + list(extra)


def _limits(mem_gb):
    def f():
        if mem_gb:
            resource.setrlimit(resource.RLIMIT_AS, (mem_gb << 30, mem_gb << 30))
        os.setsid()
    return f


_CHILDREN = set()      # process-group ids of running tools, killed when the driver itself is terminated (no orphan solvers)


def kill_children(*_a):
    for pid in list(_CHILDREN):
        try:
            os.killpg(pid, 9)
        except Exception:
            pass


def run(cmd, timeout, mem_gb=24, cwd=None, env=None):
    """returns (rc, stdout, stderr, seconds); rc = 'timeout' on timeout"""
    t0 = time.time()
    e = dict(os.environ)
    e["PATH"] = SHIMS + ":" + e.get("PATH", "")
    if env:
        e.update(env)
    try:
        p = subprocess.Popen(cmd, stdout=subprocess.PIPE, stderr=subprocess.PIPE, cwd=cwd, env=e,
                             preexec_fn=_limits(mem_gb), text=True, errors="replace")
        _CHILDREN.add(p.pid)
        try:
            try:
                out, err = p.communicate(timeout=timeout)
            except subprocess.TimeoutExpired:
                try:
                    os.killpg(p.pid, 9)
                except Exception:
                    pass
                out, err = p.communicate()
                return "timeout", out, err, time.time() - t0
            return p.returncode, out, err, time.time() - t0
        finally:
            _CHILDREN.discard(p.pid)
    except FileNotFoundError as ex:
        return "notfound", "", str(ex), time.time() - t0


class Result:
    def __init__(self, ob):
        self.ob = ob
        self.status = None        # 'pass' | 'fail' | 'undecided'
        self.reason = ""
        self.props = []           # (name, status, description)
        self.failed = []          # [(name, description)]
        self.n_props = 0
        self.n_ok = 0
        self.solver_s = 0.0
        self.wall_s = 0.0
        self.trace_vin = None
        self.log_tail = ""
        self.replay = None
        self.cmds = []


def vin_to_c(v):
    """cbmc JSON value -> C initializer text"""
    if "members" in v:
        parts = []
        for m in v["members"]:
            if m["name"].startswith("$pad"):
                continue
            parts.append(".%s = %s" % (m["name"], vin_to_c(m["value"])))
        return "{ " + ", ".join(parts) + " }"
    if "elements" in v:
        return "{ " + ", ".join(vin_to_c(e["value"]) for e in v["elements"]) + " }"
    if "binary" in v:
        b = v["binary"]
        w = len(b)
        n = int(b, 2)
        t = v.get("type", "")
        if t.startswith("signed") or t in ("int", "char", "long int", "short int", "signed char") or v.get("name") == "integer" and "unsigned" not in t and "size_t" not in t and t not in ("_Bool", "__CPROVER_bool"):
            if n >= 1 << (w - 1):
                n -= 1 << w
            if n == -(1 << (w - 1)):
                return "(%d - 1)" % (n + 1)
            return str(n) + ("L" if w > 32 else "")
        return hex(n) + ("UL" if w > 32 else "U")
    if "data" in v:
        return str(v["data"])
    return "0"


def parse_cbmc_json(txt):
    """-> (props list, vin value of first non-probe failure or None, error messages)"""
    try:
        data = json.loads(txt)
    except Exception:
        # cbmc sometimes dies mid-stream: try to salvage
        return None, None, ["unparseable cbmc output"]
    props, errs = [], []
    vin = None
    for e in data:
        if not isinstance(e, dict):
            continue
        if e.get("messageType") == "ERROR":
            errs.append(e.get("messageText", ""))
        if "result" in e:
            for r in e["result"]:
                props.append((r.get("property", "?"), r.get("status", "?"), r.get("description", "")))
                if r.get("status") == "FAILURE" and "vacuity-probe" not in r.get("description", "") and vin is None:
                    last = None
                    for st in r.get("trace", []):
                        if st.get("stepType") == "assignment" and st.get("lhs") == "vin" and "members" in st.get("value", {}):
                            last = st["value"]
                    if last is not None:
                        vin = last
    return props, vin, errs


LOOPISH = ("loop_invariant_base", "loop_invariant_step", "loop_decreases", "loop_step_unwinding", "loop_assigns")


def classify(props, ob):
    """-> (status, reason, failed)"""
    failed, probes_failed, probes_ok, unwind, other = [], 0, 0, [], []
    for name, st, desc in props:
        if "vacuity-probe" in desc:
            if not name.startswith(ob["entry"] + "."):
                continue
            if st == "FAILURE":
                probes_failed += 1
            else:
                probes_ok += 1
            continue
        if st == "SUCCESS":
            continue
        if st == "FAILURE":
            if ".unwind." in name or "unwinding assertion" in desc or "recursion unwinding" in desc:
                unwind.append((name, desc))
            else:
                failed.append((name, desc))
        else:
            other.append((name, st))
    if failed:
        return "fail", "", failed
    if other:
        return "undecided", "property %s has status %s" % other[0], []
    if unwind:
        return "unwind", "unwinding assertion failed: " + unwind[0][0], unwind
    if probes_ok:
        return "undecided", "vacuous: a reachability probe was not reachable (contradictory precondition)", []
    if ob.get("probe", True) and probes_failed == 0 and ob.get("mode", "direct") == "direct":
        return "undecided", "no vacuity probe in harness", []
    return "pass", "", []



C_KEYWORDS = set("""unsigned signed long int char short size_t const volatile sizeof struct void _Bool uint8_t uint16_t
uint32_t uint64_t int32_t int64_t unsigned_char""".split())


def gen_loop_json(ob, gb, wd):
    """obligation['dfcc']['loopspec'] = {fn: [{'id':0,'assigns':..,'inv':..,'dec':..,'map':{ident: symbol}}]}
    -> JSON file for goto-instrument --loop-contracts-file with the symbol_map resolved against the symbol table.
    Raises KeyError(message) when an identifier used by a loop contract no longer exists in the function."""
    rc, out, err, s = run(["goto-instrument", "--show-symbol-table", gb], 120)
    names = set(re.findall(r"^Symbol\.+: (\S+)$", out, re.M))
    fns = []
    for fn, loops in ob["dfcc"]["loopspec"].items():
        entries = []
        for lp in loops:
            lp = dict(lp)
            for k in ("assigns", "inv", "dec"):
                if k in lp:
                    for cn, cv in ob["dfcc"].get("consts", {}).items():
                        lp[k] = re.sub(r"\b%s\b" % cn, str(cv), lp[k])
            text = " ".join(str(lp.get(k, "")) for k in ("assigns", "inv", "dec"))
            bound = set(re.findall(r"__CPROVER_(?:forall|exists)\s*\{\s*[A-Za-z_ ]*?([A-Za-z_][A-Za-z_0-9]*)\s*;", text))
            idents = set(re.findall(r"(?<![\.>A-Za-z_0-9])([A-Za-z_][A-Za-z_0-9]*)", text))
            smap = []
            for idn in sorted(idents):
                if idn in C_KEYWORDS or idn.startswith("__CPROVER") or idn in bound:
                    continue
                if idn in lp.get("map", {}):
                    smap.append("%s,%s" % (idn, lp["map"][idn]))
                    continue
                cands = sorted(n for n in names if n.startswith(fn + "::") and n.endswith("::" + idn) and "$" not in n)
                if len(cands) == 1:
                    smap.append("%s,%s" % (idn, cands[0]))
                elif len(cands) > 1:
                    cands.sort(key=len)
                    smap.append("%s,%s" % (idn, cands[0]))
                elif idn in names:
                    smap.append("%s,%s" % (idn, idn))
                else:
                    raise KeyError("loop contract of %s refers to '%s' which is no longer a variable of that function" % (fn, idn))
            e = {"loop_id": str(lp["id"]), "invariants": lp["inv"], "symbol_map": ";".join(smap)}
            if "assigns" in lp:
                e["assigns"] = lp["assigns"]
            if "dec" in lp:
                e["decreases"] = lp["dec"]
            entries.append(e)
        fns.append({fn: entries})
    path = os.path.join(wd, "loops.json")
    with open(path, "w") as f:
        json.dump({"sources": [os.path.join(VERIF, ob["src"])], "functions": fns, "output": "OUTPUT"}, f, indent=1)
    return path


def build_goto(ob, wd):
    defs = verif_defs(keep=ob.get("keep", ()), extra=ob.get("defs", ()), drop=ob.get("drop", ()))
    cmd = ["goto-cc"] + INCLUDES + defs + ["-DVCBMC=1"]
    for h in ob.get("include", []):
        cmd += ["-include", os.path.join(VERIF, h)]
    cmd += ["--function", ob["entry"]]
    cmd += [os.path.join(VERIF, ob["src"])] + [os.path.join(VERIF, x) for x in ob.get("extra_src", [])]
    cmd += ["-o", os.path.join(wd, "a.gb")]
    return cmd


def run_obligation(ob, tier, keep_work=False):
    r = Result(ob)
    t0 = time.time()
    wd = os.path.join(WORK, ob["name"])
    shutil.rmtree(wd, ignore_errors=True)
    os.makedirs(wd, exist_ok=True)
    # a time-out is reported as UNDECIDED (exit 2), which on the unchanged tree would count as a broken check: the budget is
    # a multiple of the time measured on an idle machine so that a loaded machine still gets an answer
    timeout = max(4 * ob.get("timeout", 300), int(os.environ.get("VERIF_MIN_TIMEOUT", "3600")))
    mem = ob.get("mem_gb", 24)

    def undecided(why, log=""):
        r.status, r.reason, r.log_tail = "undecided", why, log[-3000:]
        r.wall_s = time.time() - t0
        return r

    cmd = build_goto(ob, wd)
    r.cmds.append(" ".join(cmd))
    rc, out, err, s = run(cmd, 300, mem)
    if rc != 0:
        return undecided("goto-cc failed (code no longer compiles under the verification configuration, or harness "
                         "no longer matches a signature)", out + err)
    gb = os.path.join(wd, "a.gb")
    if ob.get("mode", "direct") == "dfcc":
        d = ob["dfcc"]
        cmd = ["goto-instrument", "--dfcc", ob["entry"]]
        for f in d.get("enforce", []):
            cmd += ["--enforce-contract", f]
        for f in d.get("replace", []):
            cmd += ["--replace-call-with-contract", f]
        if d.get("loopspec"):
            try:
                lj = gen_loop_json(ob, gb, wd)
            except KeyError as ex:
                return undecided("contract no longer matches code shape: %s" % ex)
            cmd += ["--apply-loop-contracts", "--loop-contracts-file", lj]
        elif d.get("loops"):
            cmd += ["--apply-loop-contracts", "--loop-contracts-file", os.path.join(VERIF, d["loops"])]
        elif d.get("inline_loops"):
            cmd += ["--apply-loop-contracts"]
        cmd += d.get("gi_args", [])
        cmd += [gb, os.path.join(wd, "b.gb")]
        r.cmds.append(" ".join(cmd))
        rc, out, err, s = run(cmd, 600, mem)
        if rc != 0:
            return undecided("goto-instrument --dfcc failed: contract no longer matches code shape", out + err)
        gb = os.path.join(wd, "b.gb")
    if ob.get("gi_pre"):
        cmd = ["goto-instrument"] + ob["gi_pre"] + [gb, os.path.join(wd, "c.gb")]
        r.cmds.append(" ".join(cmd))
        rc, out, err, s = run(cmd, 600, mem)
        if rc != 0:
            return undecided("goto-instrument failed", out + err)
        gb = os.path.join(wd, "c.gb")

    cmd = ["cbmc", gb, "--json-ui", "--trace", "--drop-unused-functions"]
    if not ob.get("no_safety"):
        cmd += SAFETY
    cmd += [str(x) for x in ob.get("cbmc", [])]
    solver = ob.get("solver", "sat")
    if solver == "kissat":
        cmd += ["--external-sat-solver", "kissat"]
    elif solver == "cadical":
        cmd += ["--sat-solver", "cadical"]
    elif solver == "z3":
        cmd += ["--z3"]
    elif solver == "cvc5":
        cmd += ["--cvc5"]
    r.cmds.append(" ".join(cmd))
    # cbmc writes the CNF for the external SAT solver to $TMPDIR and leaves it behind when it is killed on a timeout:
    # keep temporaries inside the obligation's work directory and remove them afterwards
    tmpd = os.path.join(wd, "tmp")
    os.makedirs(tmpd, exist_ok=True)
    rc, out, err, s = run(cmd, timeout, mem, env={"TMPDIR": tmpd})
    shutil.rmtree(tmpd, ignore_errors=True)
    r.solver_s = s
    if rc == "timeout":
        return undecided("cbmc timeout after %ds" % timeout, err)
    props, vin, errs = parse_cbmc_json(out)
    if props is None or (not props):
        return undecided("cbmc produced no results (rc=%s): %s" % (rc, "; ".join(errs)[:400]), out[-1500:] + err[-1500:])
    low = (out + err)
    for bad in ("ignoring forall", "ignoring exists", "Parse Error"):
        if bad in low and bad not in ob.get("allow_log", []):
            return undecided("log contains '%s'" % bad, low)
    r.props = props
    r.n_props = len([p for p in props if "vacuity-probe" not in p[2]])
    r.n_ok = len([p for p in props if p[1] == "SUCCESS" and "vacuity-probe" not in p[2]])
    st, why, failed = classify(props, ob)
    if st == "pass" and r.n_props < ob.get("min_props", 1):
        return undecided("harness generated %d obligations, expected at least %d" % (r.n_props, ob.get("min_props", 1)))
    r.status, r.reason, r.failed = st, why, failed
    r.trace_vin = vin
    if st in ("fail", "unwind"):
        r.log_tail = "\n".join("%s: %s [%s]" % (n, d, "FAILURE") for n, d in failed[:20])
    if not keep_work and st == "pass":
        shutil.rmtree(wd, ignore_errors=True)
    r.wall_s = time.time() - t0
    return r


# ---------------------------------------------------------------------------------------------- native replay

def native_build_run(ob, vin_init, cfg, wd, timeout=20):
    """build the harness with gcc against the real translation unit and run it on the counterexample"""
    hdr = os.path.join(wd, "vin_init.h")
    with open(hdr, "w") as f:
        f.write("#define VIN_INIT %s\n" % vin_init)
    defs = verif_defs(keep=ob.get("keep", ()), extra=ob.get("defs", ()), drop=ob.get("drop", ())) if cfg == "verif" else default_defs(ob.get("defs", ()))
    exe = os.path.join(wd, "replay_%s.bin" % cfg)
    cmd = ["gcc", "-O1", "-g", "-w", "-fno-strict-aliasing", "-fno-strict-overflow", "-fsanitize=address,undefined", "-fno-sanitize-recover=all", "-U_FORTIFY_SOURCE"] + INCLUDES + defs + \
          ["-DVNATIVE=1", "-DVENTRY=" + ob["entry"], "-include", hdr]
    if cfg == "default":
        cmd += ["-mavx2", "-maes", "-mpclmul", "-mrdrnd"]
    for h in ob.get("include", []):
        cmd += ["-include", os.path.join(VERIF, h)]
    cmd += [os.path.join(VERIF, ob["src"])] + [os.path.join(VERIF, x) for x in ob.get("extra_src", [])]
    cmd += [os.path.join(VERIF, x) for x in ob.get("native_src", [])]
    cmd += ["-o", exe, "-lpthread", "-no-pie", "-Wl,--unresolved-symbols=ignore-all"]
    rc, out, err, s = run(cmd, 300, 16)
    if rc != 0:
        return {"config": cfg, "built": False, "output": (out + err)[-1500:]}
    rc, out, err, s = run([exe], timeout, None, env={"ASAN_OPTIONS": "detect_leaks=0"})
    if "pc points to the zero page" in err:
        # call through an unresolved symbol: the unit under test does not exist in this build configuration
        return {"config": cfg, "built": True, "rc": rc, "output": "not applicable: the function under test is not compiled in this configuration (unresolved symbol)", "reproduced": False}
    return {"config": cfg, "built": True, "rc": rc, "output": ((out + err)[:1800] + ("\n...\n" + (out + err)[-600:] if len(out + err) > 2400 else "")),
            "reproduced": (rc == 1 and "REPLAY RESULT: violated" in out) or rc == "timeout" or (isinstance(rc, int) and rc < 0)
                          or "ERROR: AddressSanitizer:" in err or "runtime error:" in err}


def do_replay(ob, vin, wd):
    os.makedirs(wd, exist_ok=True)
    init = vin_to_c(vin)
    res = [native_build_run(ob, init, "verif", wd)]
    if ob.get("replay_default", True):
        res.append(native_build_run(ob, init, "default", wd))
    return init, res


def sha(s):
    return hashlib.sha256(s.encode()).hexdigest()[:16]


def load_known():
    known, fixed = [], []
    p = os.path.join(VERIF, "known_findings.txt")
    if os.path.exists(p):
        for l in open(p):
            l = l.strip()
            if l.startswith("finding:"):
                d = dict(x.split("=", 1) for x in l.split()[1:] if "=" in x and x.split("=")[0] in ("property", "obligation", "failed", "input"))
                d["text"] = l
                known.append(d)
            elif l.startswith("fixed:"):
                fixed.append(l)
    return known, fixed


def match_known(known, pid, obname, failed_names, digest):
    for k in known:
        if k.get("property") != pid or k.get("obligation") != obname:
            continue
        if "failed" in k and k["failed"] not in failed_names:
            continue
        if "input" in k and k["input"] != digest:
            continue
        return k
    return None


# ---------------------------------------------------------------------------------------------- property check

def check_property(pid, obligations, tier, jobs, only=None, keep_work=False, seed=0):
    t0 = time.time()
    obs = [o for o in obligations if pid in o["props"] and (tier == "thorough" or o.get("tier", "quick") == "quick")]
    if pid == "C12" and tier != "thorough":
        obs = [o for o in obs if o.get("c12_tier", "quick") == "quick"]
    if only:
        obs = [o for o in obs if any(x in o["name"] for x in only)]
    if tier == "thorough":
        obs = [dict(o, **o.get("thorough", {})) for o in obs]
    os.makedirs(WORK, exist_ok=True)
    os.makedirs(REPLAY_OUT, exist_ok=True)
    results = []
    # longest first
    obs.sort(key=lambda o: -o.get("timeout", 300))
    with cf.ThreadPoolExecutor(max_workers=jobs) as ex:
        futs = {ex.submit(run_obligation, o, tier, keep_work): o for o in obs}
        for f in cf.as_completed(futs):
            r = f.result()
            results.append(r)
            print("  [%-9s] %-44s %-4s props=%d/%d %.1fs %s" % (r.status, r.ob["name"], r.ob["kind"], r.n_ok, r.n_props,
                                                             r.wall_s, r.reason[:150]), flush=True)
    results.sort(key=lambda r: r.ob["name"])
    known, fixed = load_known()
    violations, undecided, known_hits = [], [], []
    for r in results:
        if r.status in ("fail", "unwind"):
            wd = os.path.join(WORK, r.ob["name"])
            rep = {"property": pid, "obligation": r.ob["name"], "kind": r.ob["kind"], "harness": r.ob["src"], "entry": r.ob["entry"],
                   "functions_under_contract": r.ob.get("functions", []),
                   "failed_obligations": [{"name": n, "description": d} for n, d in r.failed],
                   "verifier_commands": r.cmds, "verifier_output": r.log_tail}
            reproduced = False
            digest = "none"
            if r.trace_vin is not None and r.ob.get("mode", "direct") == "direct" and r.ob.get("replayable", True):
                init, nat = do_replay(r.ob, r.trace_vin, wd)
                rep["vin_init"] = init
                rep["native_replay"] = nat
                digest = sha(init)
                reproduced = any(x.get("reproduced") for x in nat)
            if r.trace_vin is not None and "vin_init" not in rep:
                rep["verifier_counterexample_input (not replayed natively: harness relies on CBMC-only stubs)"] = vin_to_c(r.trace_vin)
            rep["reproduced_on_real_code"] = reproduced
            if r.status == "unwind" and not reproduced:
                undecided.append(r)
                r.status = "undecided"
                continue
            path = os.path.join(REPLAY_OUT, "%s-%s.json" % (pid, r.ob["name"]))
            with open(path, "w") as f:
                json.dump(rep, f, indent=1)
            k = match_known(known, pid, r.ob["name"], [n for n, _ in r.failed] + [d for _, d in r.failed], digest)
            if k:
                known_hits.append((r, k))
            else:
                violations.append((r, path, reproduced))
        elif r.status == "undecided":
            undecided.append(r)
    wall = time.time() - t0
    write_evidence(pid, tier, seed, results, violations, undecided, known_hits, wall, partial=bool(only))
    for r, k in known_hits:
        print("KNOWN-FINDING: property=%s %s" % (pid, k["text"]))
    for r, path, reproduced in violations:
        names = ",".join(n for n, _ in r.failed[:3])
        print("  failed obligation(s) in %s: %s" % (r.ob["name"], names))
        for n, d in r.failed[:6]:
            print("    %s: %s" % (n, d))
        print("VIOLATION property=%s replay=%s%s" % (pid, path, "" if reproduced else " no-failing-input-found"))
    if violations:
        return 1
    if undecided:
        for r in undecided:
            print("UNDECIDED property=%s obligation=%s: %s" % (pid, r.ob["name"], r.reason))
            if r.log_tail:
                print("    " + r.log_tail[-600:].replace("\n", "\n    "))
        return 2
    print("OK property=%s tier=%s obligations=%d wall=%.1fs" % (pid, tier, len(results), wall))
    return 0


def scan_assumptions(results):
    """mechanical scan: every __CPROVER_assume, replaced callee and stub used by the obligations of this run"""
    out = set()
    files = set()
    for r in results:
        ob = r.ob
        for a in ob.get("assumes", []):
            out.add(a)
        if ob.get("mode") == "dfcc":
            for g in ob["dfcc"].get("replace", []):
                out.add("assumed contract (callee replaced, body not verified here): %s [in %s]" % (g, ob["name"]))
        files.add(ob["src"])
        for x in ob.get("extra_src", []) + ob.get("include", []):
            files.add(x)
    for f in sorted(files):
        p = os.path.join(VERIF, f)
        try:
            txt = open(p).read()
        except Exception:
            continue
        n = len(re.findall(r"__CPROVER_assume\s*\(", txt))
        if n:
            out.add("%s: %d __CPROVER_assume statement(s) (stubs / input typing)" % (f, n))
    return sorted(out)


def write_evidence(pid, tier, seed, results, violations, undecided, known_hits, wall, partial=False):
    os.makedirs(os.path.join(VERIF, "evidence"), exist_ok=True)
    proof = [r for r in results if r.ob["kind"] in ("U", "F")]
    bounded = [r for r in results if r.ob["kind"] == "B"]
    n_ob = sum(r.n_props for r in proof)
    n_ok = sum(r.n_ok for r in proof if r.status == "pass")
    funcs = sorted({f for r in results for f in r.ob.get("functions", [])})
    samples = []
    for r in results[:]:
        names = [p[0] for p in r.props if "vacuity-probe" not in p[2]]
        samples.append({"obligation": r.ob["name"], "kind": r.ob["kind"], "status": r.status,
                        "backend": r.ob.get("solver", "sat"), "mode": r.ob.get("mode", "direct"),
                        "verifier_properties": r.n_props, "discharged": r.n_ok if r.status == "pass" else 0,
                        "solver_s": round(r.solver_s, 1),
                        "bound": r.ob.get("bound", "none (all inputs / all iterations)") if r.ob["kind"] != "B" else r.ob.get("bound", "?"),
                        "what": r.ob.get("what", ""),
                        "example_properties": names[:3] + names[-2:]})
    level = "proof" if proof else "other"
    if pid in LEVEL_OVERRIDE:
        level = LEVEL_OVERRIDE[pid]
    expl = ("Contract obligations on the real translation units of /repo. Kinds: U = unbounded (function contract enforced by "
            "goto-instrument --dfcc, every loop closed by a loop contract), F = finite-complete (no loop or constant trip "
            "count, full input domain), B = bounded stand-in (never counted in obligations/discharged). This run: "
            "%d U/F harnesses (%d verifier properties, %d discharged), %d bounded harnesses (%d properties), %d undecided, "
            "%d violation(s)." % (len(proof), n_ob, n_ok, len(bounded), sum(r.n_props for r in bounded), len(undecided), len(violations)))
    ev = {
        "property_id": pid, "tier": tier, "seed": seed, "level": level,
        "coverage": {
            "obligations": n_ob, "discharged": n_ok,
            "checker_cmd": "bin/vcheck %s --tier %s  (per obligation: goto-cc <harness including the real .c> ; goto-instrument --dfcc ... ; cbmc)" % (pid, tier),
            "trusted_base": TRUSTED_BASE,
            "explanation": expl,
            "harnesses_proof": len(proof), "harnesses_bounded": len(bounded),
            "bounded_properties": sum(r.n_props for r in bounded),
            "bounded_discharged": sum(r.n_ok for r in bounded if r.status == "pass"),
            "evaluations": len(results), "distinct_nontrivial": len(results),
            "rule": "one evaluation = one proof harness (obligation) run through cbmc; all are distinct",
            "functions_under_contract": funcs,
            "solver_seconds_total": round(sum(r.solver_s for r in results), 1),
            "undecided": [{"obligation": r.ob["name"], "reason": r.reason} for r in undecided],
            "not_covered": NOT_COVERED.get(pid, []),
            "samples": samples,
        },
        "assumptions": scan_assumptions(results) + STANDING.get(pid, []),
        "wall_s": round(wall, 1),
        "violations": len(violations),
    }
    if known_hits:
        ev["coverage"]["known_findings"] = [k["text"] for _, k in known_hits]
    # partial runs (--only) and runs against a deliberately patched tree (VERIF_SCRATCH_EVIDENCE=1) never touch the
    # evidence file that gets committed
    dest = os.path.join(VERIF, "evidence", pid + ".json")
    if partial or os.environ.get("VERIF_SCRATCH_EVIDENCE"):
        dest = os.path.join(WORK, "evidence-scratch-" + pid + ".json")
    with open(dest, "w") as f:
        json.dump(ev, f, indent=1)


LEVEL_OVERRIDE = {}
NOT_COVERED = {}
STANDING = {}
