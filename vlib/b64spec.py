"""Specification text (C expressions) for the unbounded sodium_bin2base64 contract: one definition shared by the function
contract (contracts/codecs_enc.h, written by tools/gen_contract_headers.py) and the loop invariants (obligations/C15.py)."""


def cm(v, us):
    """RFC 4648 character of the 6-bit value v; us = C expression that is non-zero for the URL-safe alphabet"""
    return ("((%(v)s) < 26u ? 65u + (%(v)s) : ((%(v)s) < 52u ? 71u + (%(v)s) : ((%(v)s) < 62u ? (%(v)s) - 4u : ((%(v)s) == 62u ? ((%(us)s) ? 45u : 43u) : ((%(us)s) ? 95u : 47u)))))"
            % {"v": v, "us": us})


def E(k):
    """6-bit group number k of the bit string of bin[0..bin_len), most significant bit first, zero padded"""
    i = "((3 * (%s)) / 4)" % k
    sh = "((6 * (%s)) %% 8)" % k
    w = "((((unsigned int) bin[%(i)s]) << 8) | ((%(i)s + 1 < bin_len) ? (unsigned int) bin[%(i)s + 1] : 0u))" % {"i": i}
    return "((%s >> (10 - %s)) & 63u)" % (w, sh)


def expected_char(k, us):
    return cm(E(k), us)


UL = "((8 * bin_len + 5) / 6)"                                   # characters carrying data = ceil(8 len / 6)
NOPAD = "((((unsigned int) variant) & 2u) != 0u)"
US = "((((unsigned int) variant) & 4u) != 0u)"
L = "(%s ? %s : 4 * ((bin_len + 2) / 3))" % (NOPAD, UL)           # encoded length without the terminator


def ghost(limit, us):
    return "(g_k < %s ==> ((unsigned int) (unsigned char) b64[g_k]) == %s)" % (limit, expected_char("g_k", us))


def contract():
    lines = [
        "char *sodium_bin2base64_spec(char *const b64, const size_t b64_maxlen, const unsigned char *const bin, const size_t bin_len, const int variant)",
        "__CPROVER_requires(bin_len <= 3072 && b64_maxlen <= 4200 && (variant == 1 || variant == 3 || variant == 5 || variant == 7))",
        "__CPROVER_requires(b64_maxlen > %s)" % L,
        "__CPROVER_requires(__CPROVER_is_fresh(b64, b64_maxlen) && __CPROVER_is_fresh(bin, bin_len))",
        "__CPROVER_assigns(__CPROVER_object_upto(b64, b64_maxlen))",
        "__CPROVER_ensures(__CPROVER_return_value == b64)",
        "__CPROVER_ensures(%s)" % ghost(UL, US),
        "__CPROVER_ensures((g_k >= %s && g_k < %s) ==> b64[g_k] == 61)" % (UL, L),
        "__CPROVER_ensures((g_k >= %s && g_k < b64_maxlen) ==> b64[g_k] == 0)" % L,
        ";"]
    return "\n".join(lines) + "\n"


def loopspec():
    mask = "((1u << acc_len) - 1u)"
    common = "bin_pos <= bin_len && 6 * b64_pos + acc_len == 8 * bin_pos && b64_pos < b64_maxlen"
    def outer(us):
        return (common + " && (acc_len == 0 || acc_len == 2 || acc_len == 4)"
                " && (acc_len != 0 ==> (bin_pos >= 1 && (acc & %(m)s) == (((unsigned int) bin[bin_pos - 1]) & %(m)s)))"
                " && %(g)s" % {"m": mask, "g": ghost("b64_pos", us)})
    def inner(us):
        return (common + " && bin_pos >= 1 && acc_len <= 12 && (acc_len & 1) == 0"
                " && (acc_len <= 8 ==> (acc & %(m)s) == (((unsigned int) bin[bin_pos - 1]) & %(m)s))"
                " && (acc_len > 8 ==> (bin_pos >= 2 && (acc & %(m)s) == (((((unsigned int) bin[bin_pos - 2]) << 8) | (unsigned int) bin[bin_pos - 1]) & %(m)s)))"
                " && %(g)s" % {"m": mask, "g": ghost("b64_pos", us)})
    tail = "%s && ((g_k >= %s && g_k < b64_pos) ==> b64[g_k] == 61)" % (ghost(UL, US), UL)
    asg = "b64_pos,bin_pos,acc,acc_len,__CPROVER_object_upto(b64,b64_maxlen)"
    return {"sodium_bin2base64": [
        {"id": 0, "dec": "acc_len", "assigns": "b64_pos,acc_len,__CPROVER_object_upto(b64,b64_maxlen)", "inv": inner("1")},
        {"id": 1, "dec": "bin_len - bin_pos", "assigns": asg, "inv": outer("1")},
        {"id": 2, "dec": "acc_len", "assigns": "b64_pos,acc_len,__CPROVER_object_upto(b64,b64_maxlen)", "inv": inner("0")},
        {"id": 3, "dec": "bin_len - bin_pos", "assigns": asg, "inv": outer("0")},
        {"id": 4, "dec": "b64_len - b64_pos", "assigns": "b64_pos,__CPROVER_object_upto(b64,b64_maxlen)",
         "inv": "b64_pos >= %s && b64_pos <= b64_len && %s" % (UL, tail)},
        {"id": 5, "dec": "b64_maxlen - b64_pos", "assigns": "b64_pos,__CPROVER_object_upto(b64,b64_maxlen)",
         "inv": "b64_pos >= b64_len && b64_pos < b64_maxlen && %s && ((g_k >= b64_len && g_k < b64_pos) ==> b64[g_k] == 0)" % tail.replace("g_k < b64_pos) ==> b64[g_k] == 61", "g_k < b64_len) ==> b64[g_k] == 61")},
    ]}


HEADER = '''/* GENERATED from vlib/b64spec.py (tools/gen_contract_headers.py, also refreshed by obligations/C15.py when stale) - do not edit.
 * Unbounded functional contract of sodium_bin2base64 (C15, C12), quantifier free with the ghost index g_k:
 *   character k < ceil(8 len / 6) is the RFC 4648 character of the k-th 6-bit group of the input (zero padded),
 *   then '=' up to the padded length (padding variants), then zero bytes up to b64_maxlen; the buffer is returned. */
#pragma once
#include <stddef.h>
extern size_t g_k;
'''


def header():
    return HEADER + contract()
