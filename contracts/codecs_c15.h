/* Contracts for codecs.c (C15), ghost-index form. */
#pragma once
#include <stddef.h>
#include <stdint.h>
extern size_t g_k, g_m; extern char g_oldc;
#define V_HEXDIGIT(v) ((char) ((v) < 10 ? '0' + (v) : 'a' + ((v) - 10)))

/* sodium_bin2hex, in-contract call (hex_maxlen > 2*bin_len): lower-case digits of every byte (observed at g_k), NUL at
 * 2*bin_len, returns hex, nothing beyond the terminator written (observed at g_m) */
char *sodium_bin2hex_spec(char *const hex, const size_t hex_maxlen, const unsigned char *const bin, const size_t bin_len)
__CPROVER_requires(bin_len <= 4096 && hex_maxlen <= 8200 && hex_maxlen > 2 * bin_len)
__CPROVER_requires(__CPROVER_is_fresh(hex, hex_maxlen) && __CPROVER_is_fresh(bin, bin_len))
__CPROVER_requires(g_m < hex_maxlen && hex[g_m] == g_oldc)
__CPROVER_assigns(__CPROVER_object_upto(hex, hex_maxlen))
__CPROVER_ensures(__CPROVER_return_value == hex && hex[2 * bin_len] == 0)
__CPROVER_ensures(g_k < bin_len ==> (hex[2 * g_k] == V_HEXDIGIT(bin[g_k] >> 4) && hex[2 * g_k + 1] == V_HEXDIGIT(bin[g_k] & 15)))
__CPROVER_ensures(g_m > 2 * bin_len ==> hex[g_m] == g_oldc)
;
