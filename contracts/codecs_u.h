/* Unbounded memory-safety / frame / capacity contracts for the decoders of codecs.c (C15, C12).
 * errno is modelled as the plain global v_errno (the macro is redirected here, before codecs.c is read);
 * strchr is an assumed libc contract: no side effect, returns NULL or a pointer into its argument. */
#pragma once
#include <errno.h>
#include <stddef.h>
#include <string.h>
#undef errno
extern int v_errno;
#define errno v_errno

char *strchr(const char *s, int c)
__CPROVER_requires(s != NULL)
__CPROVER_assigns()
__CPROVER_ensures(__CPROVER_return_value == NULL || __CPROVER_same_object(__CPROVER_return_value, s))
;

int sodium_hex2bin_spec(unsigned char *const bin, const size_t bin_maxlen, const char *const hex, const size_t hex_len,
                        const char *const ignore, size_t *const bin_len, const char **const hex_end)
__CPROVER_requires(bin_maxlen <= 4096 && hex_len <= 8192)
__CPROVER_requires(__CPROVER_is_fresh(bin, bin_maxlen) && __CPROVER_is_fresh(hex, hex_len))
__CPROVER_requires(__CPROVER_is_fresh(bin_len, sizeof(size_t)) && __CPROVER_is_fresh(hex_end, sizeof(char *)))
__CPROVER_requires(ignore == NULL || __CPROVER_is_fresh(ignore, 1))
__CPROVER_assigns(__CPROVER_object_upto(bin, bin_maxlen), *bin_len, *hex_end, v_errno)
__CPROVER_ensures(__CPROVER_return_value == 0 || __CPROVER_return_value == -1)
__CPROVER_ensures(*bin_len <= bin_maxlen)
__CPROVER_ensures(__CPROVER_return_value != 0 ==> *bin_len == 0)
__CPROVER_ensures(__CPROVER_same_object(*hex_end, hex) && __CPROVER_POINTER_OFFSET(*hex_end) - __CPROVER_POINTER_OFFSET(hex) <= hex_len)
;

int sodium_base642bin_spec(unsigned char *const bin, const size_t bin_maxlen, const char *const b64, const size_t b64_len,
                           const char *const ignore, size_t *const bin_len, const char **const b64_end, const int variant)
__CPROVER_requires(bin_maxlen <= 4096 && b64_len <= 8192)
__CPROVER_requires(variant == 1 || variant == 3 || variant == 5 || variant == 7)
__CPROVER_requires(__CPROVER_is_fresh(bin, bin_maxlen) && __CPROVER_is_fresh(b64, b64_len))
__CPROVER_requires(__CPROVER_is_fresh(bin_len, sizeof(size_t)) && __CPROVER_is_fresh(b64_end, sizeof(char *)))
__CPROVER_requires(ignore == NULL || __CPROVER_is_fresh(ignore, 1))
__CPROVER_assigns(__CPROVER_object_upto(bin, bin_maxlen), *bin_len, *b64_end, v_errno)
__CPROVER_ensures(__CPROVER_return_value == 0 || __CPROVER_return_value == -1)
__CPROVER_ensures(*bin_len <= bin_maxlen)
__CPROVER_ensures(__CPROVER_return_value != 0 ==> *bin_len == 0)
__CPROVER_ensures(__CPROVER_same_object(*b64_end, b64) && __CPROVER_POINTER_OFFSET(*b64_end) - __CPROVER_POINTER_OFFSET(b64) <= b64_len)
;

/* ---- functional contract of sodium_hex2bin in strict mode (no ignore set, no end pointer), ghost-index form.
 * Soundness for EVERY text: success implies the text is an even number of hex digits, the reported length is half of it
 * and every output byte is the value of its digit pair. (Completeness is decided by the bounded differential obligation.) */
extern size_t g_k, g_m;
#define V_ISHEX(c) (((c) >= '0' && (c) <= '9') || ((c) >= 'a' && (c) <= 'f') || ((c) >= 'A' && (c) <= 'F'))
#define V_HV(c) ((c) >= '0' && (c) <= '9' ? (c) - '0' : ((c) >= 'a' && (c) <= 'f' ? (c) - 'a' + 10 : (c) - 'A' + 10))
int sodium_hex2bin_strict_spec(unsigned char *const bin, const size_t bin_maxlen, const char *const hex, const size_t hex_len,
                               const char *const ignore, size_t *const bin_len, const char **const hex_end)
__CPROVER_requires(bin_maxlen <= 4096 && hex_len <= 8192 && ignore == NULL && hex_end == NULL)
__CPROVER_requires(__CPROVER_is_fresh(bin, bin_maxlen) && __CPROVER_is_fresh(hex, hex_len) && __CPROVER_is_fresh(bin_len, sizeof(size_t)))
__CPROVER_assigns(__CPROVER_object_upto(bin, bin_maxlen), *bin_len, v_errno)
__CPROVER_ensures(__CPROVER_return_value == 0 || __CPROVER_return_value == -1)
__CPROVER_ensures(__CPROVER_return_value == 0 ==> ((hex_len & 1) == 0 && *bin_len == hex_len / 2 && *bin_len <= bin_maxlen))
__CPROVER_ensures((__CPROVER_return_value == 0 && g_k < hex_len) ==> V_ISHEX(hex[g_k]))
__CPROVER_ensures((__CPROVER_return_value == 0 && g_m < hex_len / 2) ==> bin[g_m] == (unsigned char) (16 * V_HV(hex[2 * g_m]) + V_HV(hex[2 * g_m + 1])))
;

/* ---- functional contract of sodium_base642bin, strict mode (unpadded variants, no ignore set, no end pointer), ghost-index
 * form, soundness for EVERY text: success implies that every character is in the chosen alphabet, the length is not 1 mod 4,
 * the reported length is floor(6 len / 8), the trailing bits are zero and every output byte is assembled from its two
 * 6-bit digits as RFC 4648 prescribes. */
int sodium_base642bin_strict_spec(unsigned char *const bin, const size_t bin_maxlen, const char *const b64, const size_t b64_len,
                                  const char *const ignore, size_t *const bin_len, const char **const b64_end, const int variant)
__CPROVER_requires(bin_maxlen <= 4096 && b64_len <= 4096 && ignore == NULL && b64_end == NULL && (variant == 3 || variant == 7))
__CPROVER_requires(__CPROVER_is_fresh(bin, bin_maxlen) && __CPROVER_is_fresh(b64, b64_len) && __CPROVER_is_fresh(bin_len, sizeof(size_t)))
__CPROVER_assigns(__CPROVER_object_upto(bin, bin_maxlen), *bin_len, v_errno)
__CPROVER_ensures(__CPROVER_return_value == 0 || __CPROVER_return_value == -1)
__CPROVER_ensures(__CPROVER_return_value == 0 ==> ((b64_len & 3) != 1 && *bin_len == (6 * b64_len) / 8 && *bin_len <= bin_maxlen))
__CPROVER_ensures((__CPROVER_return_value == 0 && g_k < b64_len) ==> ((((unsigned char)(b64[g_k])) >= 65 && ((unsigned char)(b64[g_k])) <= 90) || (((unsigned char)(b64[g_k])) >= 97 && ((unsigned char)(b64[g_k])) <= 122) || (((unsigned char)(b64[g_k])) >= 48 && ((unsigned char)(b64[g_k])) <= 57) || ((unsigned char)(b64[g_k])) == (((variant & 4) != 0) ? 45 : 43) || ((unsigned char)(b64[g_k])) == (((variant & 4) != 0) ? 95 : 47)))
__CPROVER_ensures((__CPROVER_return_value == 0 && g_m < (6 * b64_len) / 8) ==> bin[g_m] == ((g_m % 3 == 0) ? (unsigned char)((((unsigned int)(((unsigned char)(b64[4 * (g_m / 3) + 0])) >= 65 && ((unsigned char)(b64[4 * (g_m / 3) + 0])) <= 90 ? ((unsigned char)(b64[4 * (g_m / 3) + 0])) - 65 : (((unsigned char)(b64[4 * (g_m / 3) + 0])) >= 97 && ((unsigned char)(b64[4 * (g_m / 3) + 0])) <= 122 ? ((unsigned char)(b64[4 * (g_m / 3) + 0])) - 71 : (((unsigned char)(b64[4 * (g_m / 3) + 0])) >= 48 && ((unsigned char)(b64[4 * (g_m / 3) + 0])) <= 57 ? ((unsigned char)(b64[4 * (g_m / 3) + 0])) + 4 : (((unsigned char)(b64[4 * (g_m / 3) + 0])) == (((variant & 4) != 0) ? 45 : 43) ? 62 : 63))))) << 2) | (((unsigned int)(((unsigned char)(b64[4 * (g_m / 3) + 1])) >= 65 && ((unsigned char)(b64[4 * (g_m / 3) + 1])) <= 90 ? ((unsigned char)(b64[4 * (g_m / 3) + 1])) - 65 : (((unsigned char)(b64[4 * (g_m / 3) + 1])) >= 97 && ((unsigned char)(b64[4 * (g_m / 3) + 1])) <= 122 ? ((unsigned char)(b64[4 * (g_m / 3) + 1])) - 71 : (((unsigned char)(b64[4 * (g_m / 3) + 1])) >= 48 && ((unsigned char)(b64[4 * (g_m / 3) + 1])) <= 57 ? ((unsigned char)(b64[4 * (g_m / 3) + 1])) + 4 : (((unsigned char)(b64[4 * (g_m / 3) + 1])) == (((variant & 4) != 0) ? 45 : 43) ? 62 : 63))))) >> 4)) : ((g_m % 3 == 1) ? (unsigned char)(((((unsigned int)(((unsigned char)(b64[4 * (g_m / 3) + 1])) >= 65 && ((unsigned char)(b64[4 * (g_m / 3) + 1])) <= 90 ? ((unsigned char)(b64[4 * (g_m / 3) + 1])) - 65 : (((unsigned char)(b64[4 * (g_m / 3) + 1])) >= 97 && ((unsigned char)(b64[4 * (g_m / 3) + 1])) <= 122 ? ((unsigned char)(b64[4 * (g_m / 3) + 1])) - 71 : (((unsigned char)(b64[4 * (g_m / 3) + 1])) >= 48 && ((unsigned char)(b64[4 * (g_m / 3) + 1])) <= 57 ? ((unsigned char)(b64[4 * (g_m / 3) + 1])) + 4 : (((unsigned char)(b64[4 * (g_m / 3) + 1])) == (((variant & 4) != 0) ? 45 : 43) ? 62 : 63))))) & 15) << 4) | (((unsigned int)(((unsigned char)(b64[4 * (g_m / 3) + 2])) >= 65 && ((unsigned char)(b64[4 * (g_m / 3) + 2])) <= 90 ? ((unsigned char)(b64[4 * (g_m / 3) + 2])) - 65 : (((unsigned char)(b64[4 * (g_m / 3) + 2])) >= 97 && ((unsigned char)(b64[4 * (g_m / 3) + 2])) <= 122 ? ((unsigned char)(b64[4 * (g_m / 3) + 2])) - 71 : (((unsigned char)(b64[4 * (g_m / 3) + 2])) >= 48 && ((unsigned char)(b64[4 * (g_m / 3) + 2])) <= 57 ? ((unsigned char)(b64[4 * (g_m / 3) + 2])) + 4 : (((unsigned char)(b64[4 * (g_m / 3) + 2])) == (((variant & 4) != 0) ? 45 : 43) ? 62 : 63))))) >> 2)) : (unsigned char)(((((unsigned int)(((unsigned char)(b64[4 * (g_m / 3) + 2])) >= 65 && ((unsigned char)(b64[4 * (g_m / 3) + 2])) <= 90 ? ((unsigned char)(b64[4 * (g_m / 3) + 2])) - 65 : (((unsigned char)(b64[4 * (g_m / 3) + 2])) >= 97 && ((unsigned char)(b64[4 * (g_m / 3) + 2])) <= 122 ? ((unsigned char)(b64[4 * (g_m / 3) + 2])) - 71 : (((unsigned char)(b64[4 * (g_m / 3) + 2])) >= 48 && ((unsigned char)(b64[4 * (g_m / 3) + 2])) <= 57 ? ((unsigned char)(b64[4 * (g_m / 3) + 2])) + 4 : (((unsigned char)(b64[4 * (g_m / 3) + 2])) == (((variant & 4) != 0) ? 45 : 43) ? 62 : 63))))) & 3) << 6) | ((unsigned int)(((unsigned char)(b64[4 * (g_m / 3) + 3])) >= 65 && ((unsigned char)(b64[4 * (g_m / 3) + 3])) <= 90 ? ((unsigned char)(b64[4 * (g_m / 3) + 3])) - 65 : (((unsigned char)(b64[4 * (g_m / 3) + 3])) >= 97 && ((unsigned char)(b64[4 * (g_m / 3) + 3])) <= 122 ? ((unsigned char)(b64[4 * (g_m / 3) + 3])) - 71 : (((unsigned char)(b64[4 * (g_m / 3) + 3])) >= 48 && ((unsigned char)(b64[4 * (g_m / 3) + 3])) <= 57 ? ((unsigned char)(b64[4 * (g_m / 3) + 3])) + 4 : (((unsigned char)(b64[4 * (g_m / 3) + 3])) == (((variant & 4) != 0) ? 45 : 43) ? 62 : 63)))))))))
__CPROVER_ensures((__CPROVER_return_value == 0 && (b64_len & 3) == 2) ==> (((unsigned int)(((unsigned char)(b64[b64_len - 1])) >= 65 && ((unsigned char)(b64[b64_len - 1])) <= 90 ? ((unsigned char)(b64[b64_len - 1])) - 65 : (((unsigned char)(b64[b64_len - 1])) >= 97 && ((unsigned char)(b64[b64_len - 1])) <= 122 ? ((unsigned char)(b64[b64_len - 1])) - 71 : (((unsigned char)(b64[b64_len - 1])) >= 48 && ((unsigned char)(b64[b64_len - 1])) <= 57 ? ((unsigned char)(b64[b64_len - 1])) + 4 : (((unsigned char)(b64[b64_len - 1])) == (((variant & 4) != 0) ? 45 : 43) ? 62 : 63))))) & 15) == 0)
__CPROVER_ensures((__CPROVER_return_value == 0 && (b64_len & 3) == 3) ==> (((unsigned int)(((unsigned char)(b64[b64_len - 1])) >= 65 && ((unsigned char)(b64[b64_len - 1])) <= 90 ? ((unsigned char)(b64[b64_len - 1])) - 65 : (((unsigned char)(b64[b64_len - 1])) >= 97 && ((unsigned char)(b64[b64_len - 1])) <= 122 ? ((unsigned char)(b64[b64_len - 1])) - 71 : (((unsigned char)(b64[b64_len - 1])) >= 48 && ((unsigned char)(b64[b64_len - 1])) <= 57 ? ((unsigned char)(b64[b64_len - 1])) + 4 : (((unsigned char)(b64[b64_len - 1])) == (((variant & 4) != 0) ? 45 : 43) ? 62 : 63))))) & 3) == 0)
;
