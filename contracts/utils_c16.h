/* Contracts for sodium_pad / sodium_unpad (property C16), ghost-index form (quantifier free for pad). */
#pragma once
#include <stddef.h>
#include <stdint.h>

#define V_PAD_CAP 32768UL
#define V_PAD_LEN 16384UL
#define V_POW2(b) (((b) & ((b) - 1UL)) == 0UL)
#ifndef V_PAD_BLOCK_OK
/* which block sizes this obligation quantifies over: (a) every power of two <= 16384, (b) every value <= 130 */
# define V_PAD_BLOCK_OK(b) (V_POW2(b) && (b) <= 16384UL)
#endif
/* the property's definition of the padded length; for powers of two "x mod b" is written x & (b-1) */
#define V_PADLEN(u, b) ((u) + ((b) - (V_POW2(b) ? ((u) & ((b) - 1UL)) : ((u) % (b)))))

extern size_t g_k, g_j; extern int g_case; extern unsigned char g_old;

int sodium_pad_spec(size_t *padded_buflen_p, unsigned char *buf, size_t unpadded_buflen, size_t blocksize, size_t max_buflen)
__CPROVER_requires(max_buflen <= V_PAD_CAP && unpadded_buflen <= V_PAD_LEN && V_PAD_BLOCK_OK(blocksize))
__CPROVER_requires(__CPROVER_is_fresh(buf, max_buflen) && __CPROVER_is_fresh(padded_buflen_p, sizeof(size_t)))
__CPROVER_requires(g_k < max_buflen && buf[g_k] == g_old)
__CPROVER_assigns(__CPROVER_object_upto(buf, max_buflen), *padded_buflen_p)
/* block size 0 is refused, nothing written */
__CPROVER_ensures(blocksize == 0 ==> (__CPROVER_return_value == -1 && buf[g_k] == g_old))
/* result does not fit the capacity: error, buffer untouched */
__CPROVER_ensures((blocksize != 0 && V_PADLEN(unpadded_buflen, blocksize) > max_buflen) ==>
                  (__CPROVER_return_value == -1 && buf[g_k] == g_old))
/* fits: 0x80 marker, zeros to the next multiple of the block size, data and everything beyond untouched */
__CPROVER_ensures((blocksize != 0 && V_PADLEN(unpadded_buflen, blocksize) <= max_buflen) ==>
                  (__CPROVER_return_value == 0 && *padded_buflen_p == V_PADLEN(unpadded_buflen, blocksize) &&
                   (g_k < unpadded_buflen ==> buf[g_k] == g_old) &&
                   (g_k == unpadded_buflen ==> buf[g_k] == 0x80) &&
                   ((g_k > unpadded_buflen && g_k < V_PADLEN(unpadded_buflen, blocksize)) ==> buf[g_k] == 0) &&
                   (g_k >= V_PADLEN(unpadded_buflen, blocksize) ==> buf[g_k] == g_old)))
;

/* sodium_unpad, soundness direction (quantifier free, ghost index g_k): whenever 0 is returned, the reported length
 * points at a 0x80 byte inside the final block and every byte after it is zero; nothing but the final block is read
 * (buf is exactly padded_buflen bytes; a one-block buffer makes any read before the block an out-of-bounds read). */
int sodium_unpad_sound_spec(size_t *unpadded_buflen_p, const unsigned char *buf, size_t padded_buflen, size_t blocksize)
__CPROVER_requires(padded_buflen <= V_PAD_CAP && __CPROVER_is_fresh(buf, padded_buflen) && __CPROVER_is_fresh(unpadded_buflen_p, sizeof(size_t)))
__CPROVER_assigns(*unpadded_buflen_p)
__CPROVER_ensures(__CPROVER_return_value == 0 || __CPROVER_return_value == -1)
__CPROVER_ensures((blocksize == 0 || padded_buflen < blocksize) ==> __CPROVER_return_value == -1)
__CPROVER_ensures(__CPROVER_return_value == 0 ==>
                  (*unpadded_buflen_p < padded_buflen && *unpadded_buflen_p >= padded_buflen - blocksize &&
                   buf[*unpadded_buflen_p] == 0x80 &&
                   ((g_k > *unpadded_buflen_p && g_k < padded_buflen) ==> buf[g_k] == 0)))
;

/* sodium_unpad, completeness direction.  Ghost case split over the final block F = buf[padded-blocksize .. padded):
 *   g_case == 0 : F is all zero                                      -> -1
 *   g_case == 1 : g_j is the last non-zero position of F             -> buf[g_j] == 0x80 ? (0, *unpadded == g_j) : -1
 * The universally quantified precondition ranges over offsets from the end, q < V_UNPAD_Q (a constant, so the SAT
 * back end expands it): this obligation covers every blocksize <= V_UNPAD_Q.                                        */
#ifndef V_UNPAD_Q
# define V_UNPAD_Q 256UL
#endif
int sodium_unpad_spec(size_t *unpadded_buflen_p, const unsigned char *buf, size_t padded_buflen, size_t blocksize)
__CPROVER_requires(padded_buflen <= V_PAD_CAP && __CPROVER_is_fresh(buf, padded_buflen) && __CPROVER_is_fresh(unpadded_buflen_p, sizeof(size_t)))
__CPROVER_requires(blocksize <= V_UNPAD_Q)
__CPROVER_requires(g_case == 0 || g_case == 1)
__CPROVER_requires((g_case == 0 && blocksize != 0 && blocksize <= padded_buflen) ==>
     __CPROVER_forall { size_t q_u0; (q_u0 < V_UNPAD_Q) ==> (q_u0 < blocksize ==> buf[padded_buflen - 1 - q_u0] == 0) })
__CPROVER_requires((g_case == 1 && blocksize != 0 && blocksize <= padded_buflen) ==>
     (padded_buflen - blocksize <= g_j && g_j < padded_buflen && buf[g_j] != 0 &&
      __CPROVER_forall { size_t q_u1; (q_u1 < V_UNPAD_Q) ==> (q_u1 < padded_buflen - 1 - g_j ==> buf[padded_buflen - 1 - q_u1] == 0) }))
__CPROVER_assigns(*unpadded_buflen_p)
__CPROVER_ensures((blocksize == 0 || padded_buflen < blocksize) ==> __CPROVER_return_value == -1)
__CPROVER_ensures((blocksize != 0 && blocksize <= padded_buflen && g_case == 0) ==> __CPROVER_return_value == -1)
__CPROVER_ensures((blocksize != 0 && blocksize <= padded_buflen && g_case == 1 && buf[g_j] == 0x80) ==>
                  (__CPROVER_return_value == 0 && *unpadded_buflen_p == g_j))
__CPROVER_ensures((blocksize != 0 && blocksize <= padded_buflen && g_case == 1 && buf[g_j] != 0x80) ==> __CPROVER_return_value == -1)
;
