/* GENERATED from vlib/b64spec.py (tools/gen_contract_headers.py, also refreshed by obligations/C15.py when stale) - do not edit.
 * Unbounded functional contract of sodium_bin2base64 (C15, C12), quantifier free with the ghost index g_k:
 *   character k < ceil(8 len / 6) is the RFC 4648 character of the k-th 6-bit group of the input (zero padded),
 *   then '=' up to the padded length (padding variants), then zero bytes up to b64_maxlen; the buffer is returned. */
#pragma once
#include <stddef.h>
extern size_t g_k;
char *sodium_bin2base64_spec(char *const b64, const size_t b64_maxlen, const unsigned char *const bin, const size_t bin_len, const int variant)
__CPROVER_requires(bin_len <= 3072 && b64_maxlen <= 4200 && (variant == 1 || variant == 3 || variant == 5 || variant == 7))
__CPROVER_requires(b64_maxlen > (((((unsigned int) variant) & 2u) != 0u) ? ((8 * bin_len + 5) / 6) : 4 * ((bin_len + 2) / 3)))
__CPROVER_requires(__CPROVER_is_fresh(b64, b64_maxlen) && __CPROVER_is_fresh(bin, bin_len))
__CPROVER_assigns(__CPROVER_object_upto(b64, b64_maxlen))
__CPROVER_ensures(__CPROVER_return_value == b64)
__CPROVER_ensures((g_k < ((8 * bin_len + 5) / 6) ==> ((unsigned int) (unsigned char) b64[g_k]) == ((((((((unsigned int) bin[((3 * (g_k)) / 4)]) << 8) | ((((3 * (g_k)) / 4) + 1 < bin_len) ? (unsigned int) bin[((3 * (g_k)) / 4) + 1] : 0u)) >> (10 - ((6 * (g_k)) % 8))) & 63u)) < 26u ? 65u + (((((((unsigned int) bin[((3 * (g_k)) / 4)]) << 8) | ((((3 * (g_k)) / 4) + 1 < bin_len) ? (unsigned int) bin[((3 * (g_k)) / 4) + 1] : 0u)) >> (10 - ((6 * (g_k)) % 8))) & 63u)) : ((((((((unsigned int) bin[((3 * (g_k)) / 4)]) << 8) | ((((3 * (g_k)) / 4) + 1 < bin_len) ? (unsigned int) bin[((3 * (g_k)) / 4) + 1] : 0u)) >> (10 - ((6 * (g_k)) % 8))) & 63u)) < 52u ? 71u + (((((((unsigned int) bin[((3 * (g_k)) / 4)]) << 8) | ((((3 * (g_k)) / 4) + 1 < bin_len) ? (unsigned int) bin[((3 * (g_k)) / 4) + 1] : 0u)) >> (10 - ((6 * (g_k)) % 8))) & 63u)) : ((((((((unsigned int) bin[((3 * (g_k)) / 4)]) << 8) | ((((3 * (g_k)) / 4) + 1 < bin_len) ? (unsigned int) bin[((3 * (g_k)) / 4) + 1] : 0u)) >> (10 - ((6 * (g_k)) % 8))) & 63u)) < 62u ? (((((((unsigned int) bin[((3 * (g_k)) / 4)]) << 8) | ((((3 * (g_k)) / 4) + 1 < bin_len) ? (unsigned int) bin[((3 * (g_k)) / 4) + 1] : 0u)) >> (10 - ((6 * (g_k)) % 8))) & 63u)) - 4u : ((((((((unsigned int) bin[((3 * (g_k)) / 4)]) << 8) | ((((3 * (g_k)) / 4) + 1 < bin_len) ? (unsigned int) bin[((3 * (g_k)) / 4) + 1] : 0u)) >> (10 - ((6 * (g_k)) % 8))) & 63u)) == 62u ? ((((((unsigned int) variant) & 4u) != 0u)) ? 45u : 43u) : ((((((unsigned int) variant) & 4u) != 0u)) ? 95u : 47u)))))))
__CPROVER_ensures((g_k >= ((8 * bin_len + 5) / 6) && g_k < (((((unsigned int) variant) & 2u) != 0u) ? ((8 * bin_len + 5) / 6) : 4 * ((bin_len + 2) / 3))) ==> b64[g_k] == 61)
__CPROVER_ensures((g_k >= (((((unsigned int) variant) & 2u) != 0u) ? ((8 * bin_len + 5) / 6) : 4 * ((bin_len + 2) / 3)) && g_k < b64_maxlen) ==> b64[g_k] == 0)
;
