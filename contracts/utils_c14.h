/* Function contracts for the constant-time helpers of src/libsodium/sodium/utils.c (property C14).
 * The contracts are attached to separate *_spec declarations and enforced on the real functions with
 *   goto-instrument --dfcc <harness> --enforce-contract sodium_memcmp/sodium_memcmp_spec ...
 * Postconditions are taken from the property statement.  Quantified statements use only "forall"; existentials are
 * expressed through ghost witnesses (globals chosen nondeterministically by the harness = universally quantified).
 */
#pragma once
#include <stddef.h>
#include <stdint.h>

#ifndef V_LEN_MAX
# define V_LEN_MAX 4096UL  /* value bound on buffer lengths; the SAT variants use a smaller constant so that quantifiers expand */
#endif

/* ghost witnesses */
extern size_t g_k;     /* observed position */
extern size_t g_j;     /* witness position  */
extern int    g_case;  /* which case of the exhaustive case split */
extern unsigned char *g_a0; /* ghost copy of an in-place operand (old contents) */

/* ---- sodium_memcmp: 0 iff equal, -1 otherwise, writes nothing ------------------------------------------------ */
int sodium_memcmp_spec(const void *const b1_, const void *const b2_, size_t len)
__CPROVER_requires(len <= V_LEN_MAX)
__CPROVER_requires(__CPROVER_is_fresh(b1_, len) && __CPROVER_is_fresh(b2_, len))
__CPROVER_assigns()
__CPROVER_ensures(__CPROVER_return_value == 0 || __CPROVER_return_value == -1)
__CPROVER_ensures((__CPROVER_return_value == 0) ==
                  __CPROVER_forall { size_t q_mc; (q_mc < V_LEN_MAX) ==> ((q_mc < len) ==> ((const unsigned char *) b1_)[q_mc] == ((const unsigned char *) b2_)[q_mc]) })
;

/* ---- sodium_is_zero: 1 iff all bytes are zero --------------------------------------------------------------- */
int sodium_is_zero_spec(const unsigned char *n, const size_t nlen)
__CPROVER_requires(nlen <= V_LEN_MAX && __CPROVER_is_fresh(n, nlen))
__CPROVER_assigns()
__CPROVER_ensures(__CPROVER_return_value == 0 || __CPROVER_return_value == 1)
__CPROVER_ensures((__CPROVER_return_value == 1) == __CPROVER_forall { size_t q_iz; (q_iz < V_LEN_MAX) ==> ((q_iz < nlen) ==> n[q_iz] == 0) })
;

/* ---- sodium_compare: little-endian numeric order.
 * Case split (exhaustive: two byte strings of equal length are equal or have a top-most differing index):
 *   g_case == 0 : all bytes equal                                   -> 0
 *   g_case == 1 : g_j is the top-most differing index               -> b1[g_j] < b2[g_j] ? -1 : 1            */
int sodium_compare_spec(const unsigned char *b1_, const unsigned char *b2_, size_t len)
__CPROVER_requires(len <= V_LEN_MAX)
__CPROVER_requires(__CPROVER_is_fresh(b1_, len) && __CPROVER_is_fresh(b2_, len))
__CPROVER_requires(g_case == 0 || g_case == 1)
__CPROVER_requires(g_case == 0 ==> __CPROVER_forall { size_t q_c0; (q_c0 < V_LEN_MAX) ==> ((q_c0 < len) ==> b1_[q_c0] == b2_[q_c0]) })
__CPROVER_requires(g_case == 1 ==> (g_j < len && b1_[g_j] != b2_[g_j] &&
                   __CPROVER_forall { size_t q_c1; (q_c1 < V_LEN_MAX) ==> ((g_j < q_c1 && q_c1 < len) ==> b1_[q_c1] == b2_[q_c1]) }))
__CPROVER_assigns()
__CPROVER_ensures(g_case == 0 ==> __CPROVER_return_value == 0)
__CPROVER_ensures(g_case == 1 ==> __CPROVER_return_value == (b1_[g_j] < b2_[g_j] ? -1 : 1))
;

/* ---- sodium_increment / sodium_add / sodium_sub: little-endian arithmetic modulo 2^(8 len).
 *
 * Specification = the schoolbook recurrence that DEFINES multi-precision addition, stated for an arbitrary pair of
 * adjacent positions g_k, g_k+1 (ghost index; quantifier free, so the SAT back end proves and refutes it):
 *     out[k] = (a[k] + b[k] + cin_k) mod 256,  cin_0 = 0 (1 for increment),  cin_{k+1} = (a[k] + b[k] + cin_k) div 256
 * cin_k is named through the output byte itself: V_CIN(out[k], a[k], b[k]) = out[k] - a[k] - b[k] mod 256.
 * (1) cin_k <= 1,  (2) cin_0 as stated,  (3) out[k+1] uses exactly the carry produced at position k.
 * By induction on k (paper lemma) these three facts for every g_k are equivalent to out = a + b mod 2^(8 len): a
 * dropped, duplicated or late carry at any position of any length violates (3) at that position.
 * g_old0 / g_old1 hold the old values of a[g_k] / a[g_k+1] (the operation is in place).                           */
extern unsigned char g_old0, g_old1;
#define V_CIN(anew, aold, bb) ((unsigned char) ((anew) - (aold) - (bb)))
#define V_BIN(anew, aold, bb) ((unsigned char) ((aold) - (bb) - (anew)))

void sodium_increment_spec(unsigned char *n, const size_t nlen)
__CPROVER_requires(nlen <= V_LEN_MAX && __CPROVER_is_fresh(n, nlen))
__CPROVER_requires(g_k < nlen && n[g_k] == g_old0 && (g_k + 1 < nlen ==> n[g_k + 1] == g_old1))
__CPROVER_assigns(__CPROVER_object_upto(n, nlen))
__CPROVER_ensures(V_CIN(n[g_k], g_old0, 0) <= 1)
__CPROVER_ensures(g_k == 0 ==> V_CIN(n[g_k], g_old0, 0) == 1)
__CPROVER_ensures(g_k + 1 < nlen ==> n[g_k + 1] == (unsigned char) (g_old1 + ((g_old0 + V_CIN(n[g_k], g_old0, 0)) >> 8)))
;

void sodium_add_spec(unsigned char *a, const unsigned char *b, const size_t len)
__CPROVER_requires(len <= V_LEN_MAX && __CPROVER_is_fresh(a, len) && __CPROVER_is_fresh(b, len))
__CPROVER_requires(g_k < len && a[g_k] == g_old0 && (g_k + 1 < len ==> a[g_k + 1] == g_old1))
__CPROVER_assigns(__CPROVER_object_upto(a, len))
__CPROVER_ensures(V_CIN(a[g_k], g_old0, b[g_k]) <= 1)
__CPROVER_ensures(g_k == 0 ==> V_CIN(a[g_k], g_old0, b[g_k]) == 0)
__CPROVER_ensures(g_k + 1 < len ==> a[g_k + 1] == (unsigned char) (g_old1 + b[g_k + 1] + ((g_old0 + b[g_k] + V_CIN(a[g_k], g_old0, b[g_k])) >> 8)))
;

/* subtraction: out[k] = a[k] - b[k] - bin_k mod 256, bin_0 = 0, bin_{k+1} = 1 iff a[k] < b[k] + bin_k */
void sodium_sub_spec(unsigned char *a, const unsigned char *b, const size_t len)
__CPROVER_requires(len <= V_LEN_MAX && __CPROVER_is_fresh(a, len) && __CPROVER_is_fresh(b, len))
__CPROVER_requires(g_k < len && a[g_k] == g_old0 && (g_k + 1 < len ==> a[g_k + 1] == g_old1))
__CPROVER_assigns(__CPROVER_object_upto(a, len))
__CPROVER_ensures(V_BIN(a[g_k], g_old0, b[g_k]) <= 1)
__CPROVER_ensures(g_k == 0 ==> V_BIN(a[g_k], g_old0, b[g_k]) == 0)
__CPROVER_ensures(g_k + 1 < len ==> a[g_k + 1] == (unsigned char) (g_old1 - b[g_k + 1] - ((int) g_old0 < (int) b[g_k] + (int) V_BIN(a[g_k], g_old0, b[g_k]) ? 1 : 0)))
;

/* ---- sodium_memzero: exactly len bytes become zero (frame: only pnt[0..len)) --------------------------------- */
void sodium_memzero_spec(void *const pnt, const size_t len)
__CPROVER_requires(len <= V_LEN_MAX && __CPROVER_is_fresh(pnt, len))
__CPROVER_assigns(__CPROVER_object_upto(pnt, len))
__CPROVER_ensures(__CPROVER_forall { size_t q_mz; (q_mz < V_LEN_MAX) ==> ((q_mz < len) ==> ((unsigned char *) pnt)[q_mz] == 0) })
;
