/* Function contracts for the constant-time helpers of src/libsodium/sodium/utils.c (property C14).
 * The contracts are attached to separate *_spec declarations and enforced on the real functions with
 *   goto-instrument --dfcc <harness> --enforce-contract sodium_memcmp/sodium_memcmp_spec ...
 * Postconditions are taken from the property statement.  Quantified statements use only "forall"; existentials are
 * expressed through ghost witnesses (globals chosen nondeterministically by the harness = universally quantified).
 */
#pragma once
#include <stddef.h>
#include <stdint.h>

#define V_LEN_MAX 4096UL

/* ghost witnesses */
extern size_t g_k;     /* observed position */
extern size_t g_j;     /* witness position  */
extern int    g_case;  /* which case of the exhaustive case split */
extern unsigned char *g_a0; /* ghost copy of an in-place operand (old contents) */

/* ---- sodium_memcmp: 0 iff equal, -1 otherwise, writes nothing ------------------------------------------------ */
int sodium_memcmp_spec(const void *const b1_, const void *const b2_, size_t len)
__CPROVER_requires(len <= V_LEN_MAX)
__CPROVER_requires(__CPROVER_is_fresh(b1_, len) && __CPROVER_is_fresh(b2_, len))
__CPROVER_assigns()
__CPROVER_ensures(__CPROVER_return_value == 0 || __CPROVER_return_value == -1)
__CPROVER_ensures((__CPROVER_return_value == 0) ==
                  __CPROVER_forall { size_t q_mc; (q_mc < len) ==> ((const unsigned char *) b1_)[q_mc] == ((const unsigned char *) b2_)[q_mc] })
;

/* ---- sodium_is_zero: 1 iff all bytes are zero --------------------------------------------------------------- */
int sodium_is_zero_spec(const unsigned char *n, const size_t nlen)
__CPROVER_requires(nlen <= V_LEN_MAX && __CPROVER_is_fresh(n, nlen))
__CPROVER_assigns()
__CPROVER_ensures(__CPROVER_return_value == 0 || __CPROVER_return_value == 1)
__CPROVER_ensures((__CPROVER_return_value == 1) == __CPROVER_forall { size_t q_iz; (q_iz < nlen) ==> n[q_iz] == 0 })
;

/* ---- sodium_compare: little-endian numeric order.
 * Case split (exhaustive: two byte strings of equal length are equal or have a top-most differing index):
 *   g_case == 0 : all bytes equal                                   -> 0
 *   g_case == 1 : g_j is the top-most differing index               -> b1[g_j] < b2[g_j] ? -1 : 1            */
int sodium_compare_spec(const unsigned char *b1_, const unsigned char *b2_, size_t len)
__CPROVER_requires(len <= V_LEN_MAX)
__CPROVER_requires(__CPROVER_is_fresh(b1_, len) && __CPROVER_is_fresh(b2_, len))
__CPROVER_requires(g_case == 0 || g_case == 1)
__CPROVER_requires(g_case == 0 ==> __CPROVER_forall { size_t q_c0; (q_c0 < len) ==> b1_[q_c0] == b2_[q_c0] })
__CPROVER_requires(g_case == 1 ==> (g_j < len && b1_[g_j] != b2_[g_j] &&
                   __CPROVER_forall { size_t q_c1; (g_j < q_c1 && q_c1 < len) ==> b1_[q_c1] == b2_[q_c1] }))
__CPROVER_assigns()
__CPROVER_ensures(g_case == 0 ==> __CPROVER_return_value == 0)
__CPROVER_ensures(g_case == 1 ==> __CPROVER_return_value == (b1_[g_j] < b2_[g_j] ? -1 : 1))
;

/* ---- sodium_increment: n := n + 1 mod 2^(8 nlen).
 *   g_case == 0 : all bytes are 0xff                     -> every byte becomes 0
 *   g_case == 1 : g_j is the lowest byte that is != 0xff -> bytes below g_j become 0, byte g_j is incremented,
 *                                                           bytes above g_j keep their value
 * observed at the arbitrary position g_k (old value g_a0[g_k])                                                    */
void sodium_increment_spec(unsigned char *n, const size_t nlen)
__CPROVER_requires(nlen <= V_LEN_MAX && __CPROVER_is_fresh(n, nlen) && __CPROVER_is_fresh(g_a0, nlen))
__CPROVER_requires(__CPROVER_forall { size_t q_i0; (q_i0 < nlen) ==> n[q_i0] == g_a0[q_i0] })
__CPROVER_requires(g_k < nlen && (g_case == 0 || g_case == 1))
__CPROVER_requires(g_case == 0 ==> __CPROVER_forall { size_t q_i1; (q_i1 < nlen) ==> n[q_i1] == 0xff })
__CPROVER_requires(g_case == 1 ==> (g_j < nlen && n[g_j] != 0xff &&
                   __CPROVER_forall { size_t q_i2; (q_i2 < g_j) ==> n[q_i2] == 0xff }))
__CPROVER_assigns(__CPROVER_object_upto(n, nlen))
__CPROVER_ensures(g_case == 0 ==> n[g_k] == 0)
__CPROVER_ensures((g_case == 1 && g_k < g_j) ==> n[g_k] == 0)
__CPROVER_ensures((g_case == 1 && g_k == g_j) ==> n[g_k] == (unsigned char) (g_a0[g_k] + 1))
__CPROVER_ensures((g_case == 1 && g_k > g_j) ==> n[g_k] == g_a0[g_k])
;

/* ---- sodium_add: a := a + b mod 2^(8 len), carry-look-ahead specification.
 * The carry into position g_k is fixed by the nearest position below g_k that does not propagate:
 *   g_case == 0 : every position below g_k propagates (a+b == 255)        -> carry-in 0
 *   g_case == 1 : g_j < g_k generates (a+b >= 256), all between propagate -> carry-in 1
 *   g_case == 2 : g_j < g_k kills     (a+b <= 254), all between propagate -> carry-in 0
 * (exhaustive).  Postcondition: a'[g_k] == (a[g_k] + b[g_k] + carry-in) mod 256.                                  */
void sodium_add_spec(unsigned char *a, const unsigned char *b, const size_t len)
__CPROVER_requires(len <= V_LEN_MAX && __CPROVER_is_fresh(a, len) && __CPROVER_is_fresh(b, len) && __CPROVER_is_fresh(g_a0, len))
__CPROVER_requires(__CPROVER_forall { size_t q_a0; (q_a0 < len) ==> a[q_a0] == g_a0[q_a0] })
__CPROVER_requires(g_k < len && g_case >= 0 && g_case <= 2)
__CPROVER_requires(g_case == 0 ==> __CPROVER_forall { size_t q_a1; (q_a1 < g_k) ==> a[q_a1] + b[q_a1] == 255 })
__CPROVER_requires(g_case != 0 ==> (g_j < g_k &&
                   __CPROVER_forall { size_t q_a2; (g_j < q_a2 && q_a2 < g_k) ==> a[q_a2] + b[q_a2] == 255 }))
__CPROVER_requires(g_case == 1 ==> a[g_j] + b[g_j] >= 256)
__CPROVER_requires(g_case == 2 ==> a[g_j] + b[g_j] <= 254)
__CPROVER_assigns(__CPROVER_object_upto(a, len))
__CPROVER_ensures(a[g_k] == (unsigned char) (g_a0[g_k] + b[g_k] + (g_case == 1 ? 1 : 0)))
;

/* ---- sodium_sub: a := a - b mod 2^(8 len), borrow-look-ahead (propagate: a == b, generate: a < b, kill: a > b) */
void sodium_sub_spec(unsigned char *a, const unsigned char *b, const size_t len)
__CPROVER_requires(len <= V_LEN_MAX && __CPROVER_is_fresh(a, len) && __CPROVER_is_fresh(b, len) && __CPROVER_is_fresh(g_a0, len))
__CPROVER_requires(__CPROVER_forall { size_t q_s0; (q_s0 < len) ==> a[q_s0] == g_a0[q_s0] })
__CPROVER_requires(g_k < len && g_case >= 0 && g_case <= 2)
__CPROVER_requires(g_case == 0 ==> __CPROVER_forall { size_t q_s1; (q_s1 < g_k) ==> a[q_s1] == b[q_s1] })
__CPROVER_requires(g_case != 0 ==> (g_j < g_k &&
                   __CPROVER_forall { size_t q_s2; (g_j < q_s2 && q_s2 < g_k) ==> a[q_s2] == b[q_s2] }))
__CPROVER_requires(g_case == 1 ==> a[g_j] < b[g_j])
__CPROVER_requires(g_case == 2 ==> a[g_j] > b[g_j])
__CPROVER_assigns(__CPROVER_object_upto(a, len))
__CPROVER_ensures(a[g_k] == (unsigned char) (g_a0[g_k] - b[g_k] - (g_case == 1 ? 1 : 0)))
;

/* ---- sodium_memzero: exactly len bytes become zero (frame: only pnt[0..len)) --------------------------------- */
void sodium_memzero_spec(void *const pnt, const size_t len)
__CPROVER_requires(len <= V_LEN_MAX && __CPROVER_is_fresh(pnt, len))
__CPROVER_assigns(__CPROVER_object_upto(pnt, len))
__CPROVER_ensures(__CPROVER_forall { size_t q_mz; (q_mz < len) ==> ((unsigned char *) pnt)[q_mz] == 0 })
;
