/* Salsa20 core from the Salsa20 specification (D. J. Bernstein): quarterround, rowround, columnround, doubleround;
 * Salsa20/r(x) = x + doubleround^(r/2)(x); HSalsa20 (XSalsa20 paper): words 0,5,10,15,6,7,8,9 of doubleround^10(x)
 * without the feed-forward; HChaCha20 (draft-irtf-cfrg-xchacha): words 0..3,12..15 of the 20 ChaCha rounds. */
#ifndef V_SALSA_SPEC_H
#define V_SALSA_SPEC_H
#include <stdint.h>
#include "chacha_spec.h"
static void sp_sqr(uint32_t y[16], int a, int b, int c, int d)
{
    y[b] ^= sp_rotl(y[a] + y[d], 7);
    y[c] ^= sp_rotl(y[b] + y[a], 9);
    y[d] ^= sp_rotl(y[c] + y[b], 13);
    y[a] ^= sp_rotl(y[d] + y[c], 18);
}
static void sp_doubleround(uint32_t x[16])
{
    /* columnround */
    sp_sqr(x, 0, 4, 8, 12); sp_sqr(x, 5, 9, 13, 1); sp_sqr(x, 10, 14, 2, 6); sp_sqr(x, 15, 3, 7, 11);
    /* rowround */
    sp_sqr(x, 0, 1, 2, 3); sp_sqr(x, 5, 6, 7, 4); sp_sqr(x, 10, 11, 8, 9); sp_sqr(x, 15, 12, 13, 14);
}
static uint32_t sp_ld32(const unsigned char *p) { return (uint32_t) p[0] | ((uint32_t) p[1] << 8) | ((uint32_t) p[2] << 16) | ((uint32_t) p[3] << 24); }
static void sp_st32(unsigned char *p, uint32_t v) { p[0] = (unsigned char) v; p[1] = (unsigned char) (v >> 8); p[2] = (unsigned char) (v >> 16); p[3] = (unsigned char) (v >> 24); }
/* input block layout: (c0, k0..k3, c1, in0..in3, c2, k4..k7, c3), c = "expand 32-byte k" unless given */
static void sp_salsa_init(uint32_t x[16], const unsigned char in[16], const unsigned char k[32], const unsigned char *c)
{
    static const unsigned char sigma[16] = { 'e','x','p','a','n','d',' ','3','2','-','b','y','t','e',' ','k' };
    const unsigned char *cc = c ? c : sigma; int i;
    x[0] = sp_ld32(cc); x[5] = sp_ld32(cc + 4); x[10] = sp_ld32(cc + 8); x[15] = sp_ld32(cc + 12);
    for (i = 0; i < 4; i++) { x[1 + i] = sp_ld32(k + 4 * i); x[11 + i] = sp_ld32(k + 16 + 4 * i); x[6 + i] = sp_ld32(in + 4 * i); }
}
static void sp_salsa_core(unsigned char out[64], const unsigned char in[16], const unsigned char k[32], const unsigned char *c, int rounds)
{
    uint32_t x[16], j[16]; int i;
    sp_salsa_init(x, in, k, c);
    for (i = 0; i < 16; i++) j[i] = x[i];
    for (i = 0; i < rounds; i += 2) sp_doubleround(x);
    for (i = 0; i < 16; i++) sp_st32(out + 4 * i, x[i] + j[i]);
}
static void sp_hsalsa20(unsigned char out[32], const unsigned char in[16], const unsigned char k[32], const unsigned char *c)
{
    uint32_t x[16]; int i; static const int sel[8] = { 0, 5, 10, 15, 6, 7, 8, 9 };
    sp_salsa_init(x, in, k, c);
    for (i = 0; i < 20; i += 2) sp_doubleround(x);
    for (i = 0; i < 8; i++) sp_st32(out + 4 * i, x[sel[i]]);
}
static void sp_hchacha20(unsigned char out[32], const unsigned char in[16], const unsigned char k[32], const unsigned char *c)
{
    static const unsigned char sigma[16] = { 'e','x','p','a','n','d',' ','3','2','-','b','y','t','e',' ','k' };
    const unsigned char *cc = c ? c : sigma; uint32_t w[16]; int i;
    for (i = 0; i < 4; i++) { w[i] = sp_ld32(cc + 4 * i); w[12 + i] = sp_ld32(in + 4 * i); }
    for (i = 0; i < 8; i++) w[4 + i] = sp_ld32(k + 4 * i);
    for (i = 0; i < 10; i++) {
        sp_qr(w, 0, 4, 8, 12); sp_qr(w, 1, 5, 9, 13); sp_qr(w, 2, 6, 10, 14); sp_qr(w, 3, 7, 11, 15);
        sp_qr(w, 0, 5, 10, 15); sp_qr(w, 1, 6, 11, 12); sp_qr(w, 2, 7, 8, 13); sp_qr(w, 3, 4, 9, 14);
    }
    for (i = 0; i < 4; i++) { sp_st32(out + 4 * i, w[i]); sp_st32(out + 16 + 4 * i, w[12 + i]); }
}
#endif
