/* ChaCha20 block function written from RFC 8439 section 2.3 (quarter round 2.1, column/diagonal rounds 2.3.1) */
#ifndef V_CHACHA_SPEC_H
#define V_CHACHA_SPEC_H
#include <stdint.h>
static uint32_t sp_rotl(uint32_t x, int n) { return (x << n) | (x >> (32 - n)); }
static void sp_qr(uint32_t s[16], int a, int b, int c, int d)
{
    s[a] += s[b]; s[d] ^= s[a]; s[d] = sp_rotl(s[d], 16);
    s[c] += s[d]; s[b] ^= s[c]; s[b] = sp_rotl(s[b], 12);
    s[a] += s[b]; s[d] ^= s[a]; s[d] = sp_rotl(s[d], 8);
    s[c] += s[d]; s[b] ^= s[c]; s[b] = sp_rotl(s[b], 7);
}
/* out = serialize(state + 20 rounds(state)) */
static void sp_chacha20_block(unsigned char out[64], const uint32_t state[16])
{
    uint32_t w[16]; int i;
    for (i = 0; i < 16; i++) w[i] = state[i];
    for (i = 0; i < 10; i++) {
        sp_qr(w, 0, 4, 8, 12); sp_qr(w, 1, 5, 9, 13); sp_qr(w, 2, 6, 10, 14); sp_qr(w, 3, 7, 11, 15);
        sp_qr(w, 0, 5, 10, 15); sp_qr(w, 1, 6, 11, 12); sp_qr(w, 2, 7, 8, 13); sp_qr(w, 3, 4, 9, 14);
    }
    for (i = 0; i < 16; i++) {
        uint32_t v = w[i] + state[i];
        out[4 * i] = (unsigned char) v; out[4 * i + 1] = (unsigned char) (v >> 8); out[4 * i + 2] = (unsigned char) (v >> 16); out[4 * i + 3] = (unsigned char) (v >> 24);
    }
}
#endif
