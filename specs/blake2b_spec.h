/* BLAKE2b compression function F from RFC 7693 section 3.2 (w = 64, r = 12, R1..R4 = 32, 24, 16, 63) */
#ifndef V_BLAKE2B_SPEC_H
#define V_BLAKE2B_SPEC_H
#include <stdint.h>
static const uint64_t SP_IV[8] = { 0x6a09e667f3bcc908ULL, 0xbb67ae8584caa73bULL, 0x3c6ef372fe94f82bULL, 0xa54ff53a5f1d36f1ULL,
                                   0x510e527fade682d1ULL, 0x9b05688c2b3e6c1fULL, 0x1f83d9abfb41bd6bULL, 0x5be0cd19137e2179ULL };
static const unsigned char SP_SIGMA[10][16] = {
    { 0, 1, 2, 3, 4, 5, 6, 7, 8, 9, 10, 11, 12, 13, 14, 15 }, { 14, 10, 4, 8, 9, 15, 13, 6, 1, 12, 0, 2, 11, 7, 5, 3 },
    { 11, 8, 12, 0, 5, 2, 15, 13, 10, 14, 3, 6, 7, 1, 9, 4 }, { 7, 9, 3, 1, 13, 12, 11, 14, 2, 6, 5, 10, 4, 0, 15, 8 },
    { 9, 0, 5, 7, 2, 4, 10, 15, 14, 1, 11, 12, 6, 8, 3, 13 }, { 2, 12, 6, 10, 0, 11, 8, 3, 4, 13, 7, 5, 15, 14, 1, 9 },
    { 12, 5, 1, 15, 14, 13, 4, 10, 0, 7, 6, 3, 9, 2, 8, 11 }, { 13, 11, 7, 14, 12, 1, 3, 9, 5, 0, 15, 4, 8, 6, 2, 10 },
    { 6, 15, 14, 9, 11, 3, 0, 8, 12, 2, 13, 7, 1, 4, 10, 5 }, { 10, 2, 8, 4, 7, 6, 1, 5, 15, 11, 9, 14, 3, 12, 13, 0 } };
static uint64_t sp_rotr64(uint64_t x, int n) { return (x >> n) | (x << (64 - n)); }
static void sp_G(uint64_t v[16], int a, int b, int c, int d, uint64_t x, uint64_t y)
{
    v[a] = v[a] + (v[b] + x); v[d] = sp_rotr64(v[d] ^ v[a], 32);
    v[c] = v[c] + v[d];       v[b] = sp_rotr64(v[b] ^ v[c], 24);
    v[a] = v[a] + (v[b] + y); v[d] = sp_rotr64(v[d] ^ v[a], 16);
    v[c] = v[c] + v[d];       v[b] = sp_rotr64(v[b] ^ v[c], 63);
}
/* h: chaining value (updated), m: 16 message words, t0/t1: offset counter, f0/f1: finalisation words (f0 = ~0 for the last block) */
static void sp_blake2b_F(uint64_t h[8], const uint64_t m[16], uint64_t t0, uint64_t t1, uint64_t f0, uint64_t f1)
{
    uint64_t v[16]; int i;
    for (i = 0; i < 8; i++) { v[i] = h[i]; v[i + 8] = SP_IV[i]; }
    v[12] ^= t0; v[13] ^= t1; v[14] ^= f0; v[15] ^= f1;
    for (i = 0; i < 12; i++) {
        const unsigned char *s = SP_SIGMA[i % 10];
        sp_G(v, 0, 4, 8, 12, m[s[0]], m[s[1]]);  sp_G(v, 1, 5, 9, 13, m[s[2]], m[s[3]]);
        sp_G(v, 2, 6, 10, 14, m[s[4]], m[s[5]]); sp_G(v, 3, 7, 11, 15, m[s[6]], m[s[7]]);
        sp_G(v, 0, 5, 10, 15, m[s[8]], m[s[9]]); sp_G(v, 1, 6, 11, 12, m[s[10]], m[s[11]]);
        sp_G(v, 2, 7, 8, 13, m[s[12]], m[s[13]]); sp_G(v, 3, 4, 9, 14, m[s[14]], m[s[15]]);
    }
    for (i = 0; i < 8; i++) h[i] ^= v[i] ^ v[i + 8];
}
#endif
