/* SipHash-2-4 and SipHash-2-4-128 from the SipHash paper (Aumasson, Bernstein), section 2 and the 128-bit extension */
#ifndef V_SIPHASH_SPEC_H
#define V_SIPHASH_SPEC_H
#include <stdint.h>
static uint64_t sp_rotl64(uint64_t x, int b) { return (x << b) | (x >> (64 - b)); }
static void sp_sipround(uint64_t v[4])
{
    v[0] += v[1]; v[2] += v[3]; v[1] = sp_rotl64(v[1], 13); v[3] = sp_rotl64(v[3], 16);
    v[1] ^= v[0]; v[3] ^= v[2]; v[0] = sp_rotl64(v[0], 32);
    v[2] += v[1]; v[0] += v[3]; v[1] = sp_rotl64(v[1], 17); v[3] = sp_rotl64(v[3], 21);
    v[1] ^= v[2]; v[3] ^= v[0]; v[2] = sp_rotl64(v[2], 32);
}
static uint64_t sp_ld64(const unsigned char *p) { uint64_t v = 0; int i; for (i = 7; i >= 0; i--) v = (v << 8) | p[i]; return v; }
/* outlen 8 or 16 */
static void sp_siphash24(unsigned char *out, int outlen, const unsigned char *in, size_t inlen, const unsigned char k[16])
{
    uint64_t k0 = sp_ld64(k), k1 = sp_ld64(k + 8), v[4], m, b; size_t i, nw = inlen / 8; int j;
    v[0] = k0 ^ 0x736f6d6570736575ULL; v[1] = k1 ^ 0x646f72616e646f6dULL; v[2] = k0 ^ 0x6c7967656e657261ULL; v[3] = k1 ^ 0x7465646279746573ULL;
    if (outlen == 16) v[1] ^= 0xee;
    for (i = 0; i < nw; i++) { m = sp_ld64(in + 8 * i); v[3] ^= m; sp_sipround(v); sp_sipround(v); v[0] ^= m; }
    b = ((uint64_t) (inlen & 0xff)) << 56;                       /* last word: remaining bytes, length mod 256 in the top byte */
    for (j = 0; j < (int) (inlen & 7); j++) b |= ((uint64_t) in[8 * nw + j]) << (8 * j);
    v[3] ^= b; sp_sipround(v); sp_sipround(v); v[0] ^= b;
    v[2] ^= (outlen == 16) ? 0xee : 0xff;
    for (j = 0; j < 4; j++) sp_sipround(v);
    b = v[0] ^ v[1] ^ v[2] ^ v[3];
    for (j = 0; j < 8; j++) out[j] = (unsigned char) (b >> (8 * j));
    if (outlen == 16) {
        v[1] ^= 0xdd;
        for (j = 0; j < 4; j++) sp_sipround(v);
        b = v[0] ^ v[1] ^ v[2] ^ v[3];
        for (j = 0; j < 8; j++) out[8 + j] = (unsigned char) (b >> (8 * j));
    }
}
#endif
