"""C18 - random generation"""
ASSUME = ["the installed random source is a scripted logging stub (harness/randombytes.c); crypto_stream_chacha20_ietf is an assumed transcript contract",
          "elementary lemma, not machine checked: (2^32 - n) mod n == 2^32 mod n (a 64-bit divider next to the code's 32-bit divider does not discharge on any back end)"]


def ob(entry, what, kind="F", **kw):
    o = {"name": "c18.%s.%s" % (kind.lower(), entry[3:]), "props": ["C18", "C12"], "kind": kind, "tier": "quick", "src": "harness/randombytes.c", "entry": entry,
         "cbmc": ["--unwind", "8", "--unwindset", "v_eq.0:34,v_is_zero.0:34", "--unwinding-assertions", "--object-bits", "18"], "solver": "kissat", "timeout": 600,
         "functions": [], "what": what, "assumes": ASSUME, "bound": "none"}
    o.update(kw)
    return o


OBLIGATIONS = [
    ob("hb_uniform", "randombytes_uniform for every bound n <= 31 and every script of draws: rejects draws below 2^32 mod n, returns the first accepted draw mod n, < n, 0 for n < 2, forwards to a source-supplied generator",
       kind="B", name="c18.b.uniform.small", functions=["randombytes_uniform", "randombytes_random"], defs=["-DVUB_ASSUME(u)=((u)<=31)", "-DVDRAWS=2"], no_safety=True,
       bound="n <= 31 (symbolic 32-bit divisors do not discharge), at most 2 rejected draws, every draw value"),
    ob("hb_uniform", "randombytes_uniform for the bound n = 0x2 and every script of draws", kind="B", name="c18.b.uniform.n_0x2",
       functions=["randombytes_uniform"], defs=["-DVUB_CONST=0x2U", "-DVDRAWS=3"], bound="n = 0x2, at most 3 rejected draws, every draw value"),
    ob("hb_uniform", "randombytes_uniform for the bound n = 0x3 and every script of draws", kind="B", name="c18.b.uniform.n_0x3",
       functions=["randombytes_uniform"], defs=["-DVUB_CONST=0x3U", "-DVDRAWS=3"], bound="n = 0x3, at most 3 rejected draws, every draw value"),
    ob("hb_uniform", "randombytes_uniform for the bound n = 0x100 and every script of draws", kind="B", name="c18.b.uniform.n_0x100",
       functions=["randombytes_uniform"], defs=["-DVUB_CONST=0x100U", "-DVDRAWS=3"], bound="n = 0x100, at most 3 rejected draws, every draw value"),
    ob("hb_uniform", "randombytes_uniform for the bound n = 0x10001 and every script of draws", kind="B", name="c18.b.uniform.n_0x10001",
       functions=["randombytes_uniform"], defs=["-DVUB_CONST=0x10001U", "-DVDRAWS=3"], bound="n = 0x10001, at most 3 rejected draws, every draw value"),
    ob("hb_uniform", "randombytes_uniform for the bound n = 0x7fffffff and every script of draws", kind="B", name="c18.b.uniform.n_0x7fffffff",
       functions=["randombytes_uniform"], defs=["-DVUB_CONST=0x7fffffffU", "-DVDRAWS=3"], bound="n = 0x7fffffff, at most 3 rejected draws, every draw value"),
    ob("hb_uniform", "randombytes_uniform for the bound n = 0x80000000 and every script of draws", kind="B", name="c18.b.uniform.n_0x80000000",
       functions=["randombytes_uniform"], defs=["-DVUB_CONST=0x80000000U", "-DVDRAWS=3"], bound="n = 0x80000000, at most 3 rejected draws, every draw value"),
    ob("hb_uniform", "randombytes_uniform for the bound n = 0x80000001 and every script of draws", kind="B", name="c18.b.uniform.n_0x80000001",
       functions=["randombytes_uniform"], defs=["-DVUB_CONST=0x80000001U", "-DVDRAWS=3"], bound="n = 0x80000001, at most 3 rejected draws, every draw value"),
    ob("hb_uniform", "randombytes_uniform for the bound n = 0xc0000000 and every script of draws", kind="B", name="c18.b.uniform.n_0xc0000000",
       functions=["randombytes_uniform"], defs=["-DVUB_CONST=0xc0000000U", "-DVDRAWS=3"], bound="n = 0xc0000000, at most 3 rejected draws, every draw value"),
    ob("hb_uniform", "randombytes_uniform for the bound n = 0xffffffff and every script of draws", kind="B", name="c18.b.uniform.n_0xffffffff",
       functions=["randombytes_uniform"], defs=["-DVUB_CONST=0xffffffffU", "-DVDRAWS=3"], bound="n = 0xffffffff, at most 3 rejected draws, every draw value"),
    ob("hf_buf", "randombytes_buf / randombytes_random / implementation_name dispatch to the installed source, exactly one request covering the whole buffer, none for size 0, also after randombytes_close",
       functions=["randombytes_buf", "randombytes_random", "randombytes_close", "randombytes_set_implementation", "randombytes_implementation_name"], bound="values: size <= 65535"),
    ob("hf_deterministic", "randombytes_buf_deterministic = one ChaCha20-IETF keystream request (nonce LibsodiumDRG, key = seed) for every length", functions=["randombytes_buf_deterministic"], bound="values: size <= 65535"),
    ob("hf_deterministic_toolong", "size > 2^38 reaches the misuse handler", functions=["randombytes_buf_deterministic"]),
]


KEYGENS = [
    ("crypto_secretbox/crypto_secretbox.c", "crypto_secretbox_keygen", "crypto_secretbox_KEYBYTES"),
    ("crypto_secretbox/xsalsa20poly1305/secretbox_xsalsa20poly1305.c", "crypto_secretbox_xsalsa20poly1305_keygen", "crypto_secretbox_xsalsa20poly1305_KEYBYTES"),
    ("crypto_auth/hmacsha256/auth_hmacsha256.c", "crypto_auth_hmacsha256_keygen", "crypto_auth_hmacsha256_KEYBYTES"),
    ("crypto_auth/hmacsha512/auth_hmacsha512.c", "crypto_auth_hmacsha512_keygen", "crypto_auth_hmacsha512_KEYBYTES"),
    ("crypto_auth/hmacsha512256/auth_hmacsha512256.c", "crypto_auth_hmacsha512256_keygen", "crypto_auth_hmacsha512256_KEYBYTES"),
    ("crypto_auth/crypto_auth.c", "crypto_auth_keygen", "crypto_auth_KEYBYTES"),
    ("crypto_kdf/crypto_kdf.c", "crypto_kdf_keygen", "crypto_kdf_KEYBYTES"),
    ("crypto_kdf/hkdf/kdf_hkdf_sha256.c", "crypto_kdf_hkdf_sha256_keygen", "crypto_kdf_hkdf_sha256_KEYBYTES"),
    ("crypto_kdf/hkdf/kdf_hkdf_sha512.c", "crypto_kdf_hkdf_sha512_keygen", "crypto_kdf_hkdf_sha512_KEYBYTES"),
    ("crypto_onetimeauth/poly1305/onetimeauth_poly1305.c", "crypto_onetimeauth_poly1305_keygen", "crypto_onetimeauth_poly1305_KEYBYTES"),
    ("crypto_onetimeauth/crypto_onetimeauth.c", "crypto_onetimeauth_keygen", "crypto_onetimeauth_KEYBYTES"),
    ("crypto_aead/aegis128l/aead_aegis128l.c", "crypto_aead_aegis128l_keygen", "crypto_aead_aegis128l_KEYBYTES"),
    ("crypto_aead/aegis256/aead_aegis256.c", "crypto_aead_aegis256_keygen", "crypto_aead_aegis256_KEYBYTES"),
    ("crypto_aead/aes256gcm/aead_aes256gcm.c", "crypto_aead_aes256gcm_keygen", "crypto_aead_aes256gcm_KEYBYTES"),
    ("crypto_shorthash/crypto_shorthash.c", "crypto_shorthash_keygen", "crypto_shorthash_KEYBYTES"),
    ("crypto_stream/salsa2012/stream_salsa2012.c", "crypto_stream_salsa2012_keygen", "crypto_stream_salsa2012_KEYBYTES"),
    ("crypto_stream/chacha20/stream_chacha20.c", "crypto_stream_chacha20_ietf_keygen", "crypto_stream_chacha20_ietf_KEYBYTES"),
    ("crypto_stream/chacha20/stream_chacha20.c", "crypto_stream_chacha20_keygen", "crypto_stream_chacha20_KEYBYTES"),
    ("crypto_stream/salsa208/stream_salsa208.c", "crypto_stream_salsa208_keygen", "crypto_stream_salsa208_KEYBYTES"),
    ("crypto_stream/xsalsa20/stream_xsalsa20.c", "crypto_stream_xsalsa20_keygen", "crypto_stream_xsalsa20_KEYBYTES"),
    ("crypto_stream/crypto_stream.c", "crypto_stream_keygen", "crypto_stream_KEYBYTES"),
    ("crypto_stream/salsa20/stream_salsa20.c", "crypto_stream_salsa20_keygen", "crypto_stream_salsa20_KEYBYTES"),
    ("crypto_stream/xchacha20/stream_xchacha20.c", "crypto_stream_xchacha20_keygen", "crypto_stream_xchacha20_KEYBYTES"),
    ("crypto_generichash/blake2b/generichash_blake2.c", "crypto_generichash_blake2b_keygen", "crypto_generichash_blake2b_KEYBYTES"),
    ("crypto_generichash/crypto_generichash.c", "crypto_generichash_keygen", "crypto_generichash_KEYBYTES"),
]
for src, fn, ln in KEYGENS:
    OBLIGATIONS.append({"name": "c18.f.keygen." + fn, "props": ["C18"], "kind": "F", "tier": "quick", "src": "harness/keygen.c", "entry": "hf_keygen",
                        "defs": ['-DKG_SRC="%s"' % src, "-DKG_FN=" + fn, "-DKG_LEN=" + ln], "cbmc": ["--unwind", "4", "--unwinding-assertions"], "timeout": 120,
                        "functions": [fn], "what": fn + " requests exactly " + ln + " bytes from the random source into k", "bound": "none",
                        "assumes": ["randombytes_buf replaced by a logging stub"]})
