"""C10 - independence from CPU features / build configuration (partial: detection soundness, selection guards, helpers)"""
SIMD = ["HAVE_MMINTRIN_H", "HAVE_EMMINTRIN_H", "HAVE_PMMINTRIN_H", "HAVE_TMMINTRIN_H", "HAVE_SMMINTRIN_H", "HAVE_AVXINTRIN_H", "HAVE_AVX2INTRIN_H", "HAVE_AVX512FINTRIN_H", "HAVE_WMMINTRIN_H", "HAVE_RDRAND", "HAVE_CPUID"]
NOTE = ["byte-identical outputs across the SIMD / assembly / 25.5-bit-limb implementations - the central clause of C10 - are NOT decided: those implementations are outside the verifier (intrinsics without bodies, assembly)"]


def ob(name, src, entry, fns, what, **kw):
    o = {"name": name, "props": ["C10"], "kind": "F", "tier": "quick", "src": src, "entry": entry, "keep": SIMD, "replayable": False,
         "cbmc": ["--unwind", "20", "--unwinding-assertions"], "solver": "kissat", "timeout": 600, "functions": fns, "what": what, "bound": "none", "assumes": NOTE}
    o.update(kw)
    return o


OBLIGATIONS = [
    ob("c10.f.cpu_features", "harness/runtime.c", "hf_cpu_features", ["_sodium_runtime_get_cpu_features", "_sodium_runtime_intel_cpu_features", "sodium_runtime_has_*"],
       "every reported x86 feature flag implies the CPUID and XCR0 bits it requires, for all 2^416 register values; no CPUID => -1 and nothing reported",
       defs=["-DHAVE__XGETBV=1"], gi_pre=["--replace-calls", "_cpuid:v_cpuid_stub"], assumes=NOTE + ["CPUID and XGETBV are modelled as functions returning arbitrary register values"]),
]
for pk, nm, fn in ((0, "chacha20", "_crypto_stream_chacha20_pick_best_implementation"), (1, "salsa20", "_crypto_stream_salsa20_pick_best_implementation"), (2, "poly1305", "_crypto_onetimeauth_poly1305_pick_best_implementation"),
                   (3, "blake2b", "blake2b_pick_best_implementation"), (4, "aegis128l", "_crypto_aead_aegis128l_pick_best_implementation"), (5, "aegis256", "_crypto_aead_aegis256_pick_best_implementation")):
    OBLIGATIONS.append(ob("c10.f.pick." + nm, "harness/pick.c", "hf_pick", [fn], "the back end selected for " + nm + " requires only features reported present; portable fallback otherwise", defs=["-DPK=%d" % pk]))
OBLIGATIONS += [
    ob("c10.f.blake2b_counter.ti", "harness/pick.c", "hf_counter", ["blake2b_increment_counter"], "BLAKE2b 128-bit byte counter, build with a 128-bit integer type", defs=["-DPK=3"], props=["C10", "C04"]),
    ob("c10.f.blake2b_counter.noti", "harness/pick.c", "hf_counter", ["blake2b_increment_counter"], "BLAKE2b 128-bit byte counter, build without a 128-bit integer type: same result as the other variant (both equal 128-bit addition)",
       defs=["-DPK=3"], drop=["HAVE_TI_MODE"], props=["C10", "C04"]),
]

OBLIGATIONS += [
    ob("c10.f.endian.native", "harness/misc10.c", "hf_endian", ["LOAD64_LE", "LOAD64_BE", "LOAD32_LE", "LOAD32_BE", "STORE64_LE", "STORE64_BE", "STORE32_LE", "STORE32_BE", "ROTL32", "ROTR32", "ROTL64", "ROTR64"],
       "endian load/store helpers (native little-endian memcpy forms) and rotations equal their definition for all inputs", defs=["-DPART=0"], keep=[], replayable=True),
    ob("c10.f.endian.portable", "harness/misc10.c", "hf_endian", ["LOAD64_LE", "LOAD64_BE", "LOAD32_LE", "LOAD32_BE", "STORE64_LE", "STORE64_BE", "STORE32_LE", "STORE32_BE"],
       "the same helpers in a build without NATIVE_LITTLE_ENDIAN (portable shift forms): same definition, hence byte-identical to the native build", defs=["-DPART=0"], keep=[], drop=["NATIVE_LITTLE_ENDIAN"], replayable=True),
    ob("c10.f.aes256gcm_absent", "harness/misc10.c", "hf_aes256gcm_absent", ["crypto_aead_aes256gcm_is_available", "crypto_aead_aes256gcm_encrypt", "crypto_aead_aes256gcm_decrypt", "crypto_aead_aes256gcm_encrypt_detached", "crypto_aead_aes256gcm_decrypt_detached"],
       "build without AES-NI/PCLMUL intrinsics: the AES-256-GCM API reports itself unavailable and every entry point fails with -1/ENOSYS writing nothing", defs=["-DPART=1"], keep=[]),
    ob("c10.f.aes256gcm_available", "harness/pick.c", "hf_avail", ["crypto_aead_aes256gcm_is_available (aesni)"], "hardware build: available exactly when PCLMUL, AES-NI and AVX are all reported", defs=["-DPK=6"]),
    ob("c10.f.init_idempotent", "harness/misc10.c", "hf_init_idempotent", ["sodium_init", "sodium_crit_enter", "sodium_crit_leave"], "sequential idempotence of sodium_init (thread interleavings are C19, not applicable)", defs=["-DPART=2"], keep=[], props=["C10", "C12"]),
]
