"""crypto_box easy/detached/open and sealed boxes (C01, C02, C12, C18): composition over assumed beforenm / secretbox / BLAKE2b"""
A = ["crypto_box_beforenm, crypto_secretbox_detached/open_detached (box) resp. crypto_box_keypair, crypto_generichash_*, crypto_box_easy/open_easy (seal) are logging stubs here; "
     "their own obligations: c05.f.box_beforenm, secretbox.b.*, c05.f.box_keypair, this file"]


def ob(name, entry, part, fns, what, props, **kw):
    o = {"name": name, "props": props, "kind": "F", "tier": "quick", "src": "harness/box.c", "entry": entry, "defs": ["-DPART=%d" % part],
         "cbmc": ["--unwind", "34", "--unwinding-assertions", "--object-bits", "18"], "solver": "kissat", "timeout": 600, "functions": fns, "what": what, "assumes": A,
         "bound": "none on iterations (loop free); values: lengths <= 65535"}
    o.update(kw)
    return o


OBLIGATIONS = [
    ob("box.f.seal_forms", "hf_box_seal_forms", 0, ["crypto_box_easy", "crypto_box_detached", "crypto_box_detached_afternm"], "box easy/detached = secretbox under beforenm(pk, sk); failing key agreement => -1, nothing encrypted", ["C01", "C12"]),
    ob("box.f.open_forms", "hf_box_open_forms", 0, ["crypto_box_open_easy", "crypto_box_open_detached", "crypto_box_open_detached_afternm"], "box open forms: short input rejected, key agreement failure => -1, otherwise the secretbox verdict", ["C02", "C01", "C12"]),
    ob("box.f.easy_toolong", "hf_box_easy_toolong", 0, ["crypto_box_easy"], "mlen > MESSAGEBYTES_MAX reaches the misuse handler", ["C12"], bound="none"),
    ob("box.f.seal", "hf_seal", 1, ["crypto_box_seal", "_crypto_box_seal_nonce"], "sealed box layout: fresh ephemeral key pair, nonce = BLAKE2b-192(epk || pk), epk || box_easy(...)", ["C01", "C18", "C12"]),
    ob("box.f.seal_open", "hf_seal_open", 1, ["crypto_box_seal_open"], "seal_open: shorter than 48 bytes rejected; otherwise box_open_easy with the recomputed nonce and the embedded ephemeral key", ["C02", "C01", "C12"]),
]

for entry, props, what in (("hf_nacl_seal", ["C01", "C12"], "NaCl zero-padded secretbox: mlen < 32 refused; XSalsa20 XOR of the padded message; Poly1305 over c[32..) keyed by c[0..32); 16 zero bytes then the tag"),
                           ("hf_nacl_open", ["C02", "C01", "C12"], "NaCl secretbox open: clen < 32 rejected; tag verified with the first 32 stream bytes before decrypting; failure => -1, no key stream applied, output untouched")):
    OBLIGATIONS.append({"name": "box.f." + entry[3:], "props": props, "kind": "F", "tier": "quick", "src": "harness/nacl_box.c", "entry": entry,
        "cbmc": ["--unwind", "40", "--unwinding-assertions", "--object-bits", "18"], "solver": "kissat", "timeout": 600, "functions": ["crypto_secretbox_xsalsa20poly1305" + ("_open" if entry.endswith("open") else "")],
        "what": what, "assumes": ["crypto_stream_xsalsa20*, crypto_onetimeauth_poly1305{,_verify} are transcript stubs"], "bound": "none on iterations; values: length <= 65535"})
