"""C15 - hex / Base64 codecs"""
SRC = "harness/codecs_b.c"


def d(name, entry, fns, what, kind, unwind=12, **kw):
    o = {"name": name, "props": ["C15", "C12"], "kind": kind, "tier": "quick", "src": SRC, "entry": entry,
         "cbmc": ["--unwind", str(unwind), "--unwindset", "b64val.0:66,hf_b64_tables.0:66", "--unwinding-assertions", "--object-bits", "12"], "solver": "kissat",
         "timeout": 600, "functions": fns, "what": what}
    o.update(kw)
    return o


OBLIGATIONS = [
    d("c15.f.tables", "hf_b64_tables", ["b64_byte_to_char", "b64_byte_to_urlsafe_char", "b64_char_to_byte", "b64_urlsafe_char_to_byte"],
      "the four constant-time table functions equal the RFC 4648 alphabets for all 64 values / all byte values 0..255; decoder returns 0xFF exactly for non-alphabet characters",
      "F", unwind=66),
    d("c15.f.encoded_len", "hf_b64_encoded_len", ["sodium_base64_encoded_len", "sodium_base64_ENCODED_LEN"],
      "encoded length = 4*ceil(n/3)+1 (padded) / ceil(4n/3)+1 (unpadded) for every n < 2^62 and the 4 variants", "F"),
    d("c15.f.bad_variant", "hf_b64_bad_variant", ["sodium_base64_check_variant"], "every variant value other than 1,3,5,7 reaches the misuse handler", "F"),
    d("c15.f.bin2hex_guard", "hf_bin2hex_guard", ["sodium_bin2hex"], "bin_len >= SIZE_MAX/2 or hex_maxlen <= 2*bin_len reaches the misuse handler before any access (all values)", "F"),
    d("c15.b.hex2bin", "hb_hex2bin", ["sodium_hex2bin"],
      "sodium_hex2bin against the reference decoder: every text <= 8 characters over the full 8-bit alphabet, ignore set NULL/empty/1/2 characters, every capacity 0..5, with and without end pointer and length pointer",
      "B", bound="text <= 8 characters, ignore set <= 2 characters, capacity <= 5"),
    d("c15.b.base642bin", "hb_base642bin", ["sodium_base642bin", "_sodium_base642bin_skip_padding"],
      "sodium_base642bin against the reference decoder: every text <= 8 characters, 4 variants, ignore set NULL/empty/1/2 characters, every capacity 0..7",
      "B", bound="text <= 8 characters, ignore set <= 2 characters, capacity <= 7"),
    d("c15.b.bin2hex", "hb_bin2hex", ["sodium_bin2hex", "sodium_hex2bin"], "sodium_bin2hex content/terminator/frame and hex round trip", "B",
      bound="bin_len <= 7, capacity <= 17", unwind=20),
    d("c15.b.bin2base64", "hb_bin2base64", ["sodium_bin2base64", "sodium_base64_encoded_len"],
      "sodium_bin2base64 against an RFC 4648 reference encoder (4 variants), NUL fill to b64_maxlen, nothing beyond, misuse iff capacity <= encoded length",
      "B", bound="bin_len <= 4 (quick) / 7 (thorough), every capacity", unwind=16, defs=["-DVBIN=4"], thorough={"defs": ["-DVBIN=7"], "timeout": 3000}),
    d("c15.b.b64_roundtrip", "hb_b64_roundtrip", ["sodium_bin2base64", "sodium_base642bin"],
      "decode(encode(x)) == x, end at the terminator, 4 variants", "B", bound="bin_len <= 4 (quick) / 7 (thorough)", unwind=16, defs=["-DVBIN=4"],
      thorough={"defs": ["-DVBIN=7"], "timeout": 3000}),
]


OBLIGATIONS += [
    {"name": "c15.u.bin2hex", "props": ["C15", "C12"], "kind": "U", "tier": "quick", "src": "harness/codecs_u.c", "include": ["contracts/codecs_c15.h"],
     "entry": "hu_bin2hex", "mode": "dfcc", "probe": False, "min_props": 30, "solver": "kissat", "timeout": 600,
     "cbmc": ["--unwind", "8", "--object-bits", "12"],
     "dfcc": {"enforce": ["sodium_bin2hex/sodium_bin2hex_spec"], "loopspec": {"sodium_bin2hex": [{"id": 0, "assigns": "i,x,b,c,__CPROVER_object_upto(hex,hex_maxlen)", "dec": "bin_len - i",
        "inv": "i <= bin_len && (g_k < i ==> (hex[2 * g_k] == (char)((bin[g_k] >> 4) < 10 ? 48 + (bin[g_k] >> 4) : 87 + (bin[g_k] >> 4)) && hex[2 * g_k + 1] == (char)((bin[g_k] & 15) < 10 ? 48 + (bin[g_k] & 15) : 87 + (bin[g_k] & 15))))"
               " && (g_m >= 2 * i ==> hex[g_m] == g_oldc)"}]}},
     "functions": ["sodium_bin2hex"],
     "what": "sodium_bin2hex for every bin_len <= 4096 and every capacity > 2*bin_len: two lower-case digits per byte, NUL terminator, returns hex, nothing beyond written",
     "bound": "values: bin_len <= 4096, hex_maxlen <= 8200 (object-size bound)"},
]

OBLIGATIONS += [
    {"name": "c15.u.hex2bin", "props": ["C15", "C12"], "kind": "U", "tier": "quick", "src": "harness/codecs_du.c", "include": ["contracts/codecs_u.h"], "entry": "hu_hex2bin",
     "mode": "dfcc", "probe": False, "min_props": 30, "solver": "kissat", "timeout": 900, "cbmc": ["--unwind", "24", "--object-bits", "12"],
     "dfcc": {"enforce": ["sodium_hex2bin/sodium_hex2bin_spec"], "replace": ["strchr"],
              "loopspec": {"sodium_hex2bin": [{"id": 0, "dec": "hex_len - hex_pos",
                  "assigns": "hex_pos,bin_pos,ret,c,c_acc,c_alpha0,c_alpha,c_num0,c_num,c_val,state,v_errno,__CPROVER_object_upto(bin,bin_maxlen)",
                  "inv": "hex_pos <= hex_len && bin_pos <= bin_maxlen && (state == 0 || state == 255) && (state != 0 ==> hex_pos >= 1) && (ret == 0 || ret == -1)"}]}},
     "functions": ["sodium_hex2bin"], "assumes": ["strchr replaced by its libc contract (no side effect, result NULL or inside its argument)", "errno modelled as a plain global"],
     "what": "sodium_hex2bin for EVERY input text (<= 8192 bytes, any content), capacity (<= 4096) and ignore set: memory safety, writes confined to bin[0..bin_maxlen) / *bin_len / *hex_end / errno, *bin_len <= capacity, 0 on failure, end pointer inside [hex, hex+len]",
     "bound": "values: text <= 8192 bytes, capacity <= 4096 (object-size bounds); every loop iteration covered by the invariant"},
    {"name": "c15.u.base642bin", "props": ["C15", "C12"], "kind": "U", "tier": "quick", "src": "harness/codecs_du.c", "include": ["contracts/codecs_u.h"], "entry": "hu_base642bin",
     "mode": "dfcc", "probe": False, "min_props": 30, "solver": "kissat", "timeout": 900, "cbmc": ["--unwind", "24", "--object-bits", "12"],
     "dfcc": {"enforce": ["sodium_base642bin/sodium_base642bin_spec"], "replace": ["strchr"],
              "loopspec": {"sodium_base642bin": [
                  {"id": 0, "dec": "b64_len - b64_pos", "assigns": "b64_pos,bin_pos,ret,c,d,acc,acc_len,v_errno,__CPROVER_object_upto(bin,bin_maxlen)",
                   "inv": "b64_pos <= b64_len && bin_pos <= bin_maxlen && acc_len <= 6 && (acc_len & 1) == 0 && (ret == 0 || ret == -1)"},
                  {"id": 1, "dec": "b64_len - b64_pos", "assigns": "b64_pos", "inv": "b64_pos <= b64_len"}],
                  "_sodium_base642bin_skip_padding": [
                  {"id": 0, "dec": "b64_len - *b64_pos_p", "assigns": "padding_len,c,*b64_pos_p,v_errno", "inv": "*b64_pos_p <= b64_len"}]}},
     "functions": ["sodium_base642bin", "_sodium_base642bin_skip_padding"], "assumes": ["strchr replaced by its libc contract", "errno modelled as a plain global"],
     "what": "sodium_base642bin for EVERY input text, capacity, ignore set and the four variants: memory safety, frame, *bin_len <= capacity and 0 on failure, end pointer inside the input",
     "bound": "values: text <= 8192 bytes, capacity <= 4096; every loop iteration covered by the invariants"},
]

OBLIGATIONS.append({"name": "c15.u.hex2bin.strict", "props": ["C15", "C12"], "kind": "U", "tier": "quick", "src": "harness/codecs_du.c", "include": ["contracts/codecs_u.h"], "entry": "hu_hex2bin",
     "mode": "dfcc", "probe": False, "min_props": 30, "solver": "kissat", "timeout": 900, "cbmc": ["--unwind", "24", "--object-bits", "12"],
     "dfcc": {"enforce": ["sodium_hex2bin/sodium_hex2bin_strict_spec"], "replace": ["strchr"],
              "loopspec": {"sodium_hex2bin": [{"id": 0, "dec": "hex_len - hex_pos",
                  "assigns": "hex_pos,bin_pos,ret,c,c_acc,c_alpha0,c_alpha,c_num0,c_num,c_val,state,v_errno,__CPROVER_object_upto(bin,bin_maxlen)",
                  "inv": 'hex_pos <= hex_len && bin_pos <= bin_maxlen && (state == 0 || state == 255) && ret == 0 && hex_pos == 2 * bin_pos + (state != 0 ? 1 : 0) && (g_k < hex_pos ==> ((hex[g_k] >= 48 && hex[g_k] <= 57) || (hex[g_k] >= 97 && hex[g_k] <= 102) || (hex[g_k] >= 65 && hex[g_k] <= 70))) && (g_m < bin_pos ==> bin[g_m] == (unsigned char)(16 * (hex[2 * g_m] >= 48 && hex[2 * g_m] <= 57 ? hex[2 * g_m] - 48 : (hex[2 * g_m] >= 97 && hex[2 * g_m] <= 102 ? hex[2 * g_m] - 87 : hex[2 * g_m] - 55)) + (hex[2 * g_m + 1] >= 48 && hex[2 * g_m + 1] <= 57 ? hex[2 * g_m + 1] - 48 : (hex[2 * g_m + 1] >= 97 && hex[2 * g_m + 1] <= 102 ? hex[2 * g_m + 1] - 87 : hex[2 * g_m + 1] - 55)))) && (state != 0 ==> c_acc == (unsigned char)(16 * (hex[hex_pos - 1] >= 48 && hex[hex_pos - 1] <= 57 ? hex[hex_pos - 1] - 48 : (hex[hex_pos - 1] >= 97 && hex[hex_pos - 1] <= 102 ? hex[hex_pos - 1] - 87 : hex[hex_pos - 1] - 55))))'}]}},
     "functions": ["sodium_hex2bin"], "assumes": ["errno modelled as a plain global"],
     "what": "sodium_hex2bin, strict mode (no ignore set, no end pointer), EVERY text: success implies an even number of hex digits only, bin_len = hex_len/2, every byte = value of its digit pair (constant-time digit classification proved equal to the character ranges)",
     "bound": "values: text <= 8192 bytes, capacity <= 4096; every loop iteration covered by the invariant"})

OBLIGATIONS.append({"name": "c15.u.base642bin.strict", "props": ["C15", "C12"], "kind": "U", "tier": "quick", "src": "harness/codecs_du.c", "include": ["contracts/codecs_u.h"], "entry": "hu_base642bin",
     "mode": "dfcc", "probe": False, "min_props": 30, "solver": "kissat", "timeout": 1500, "cbmc": ["--unwind", "24", "--object-bits", "12"],
     "dfcc": {"enforce": ["sodium_base642bin/sodium_base642bin_strict_spec"], "replace": ["strchr"],
              "loopspec": {"sodium_base642bin": [
                  {"id": 0, "dec": "b64_len - b64_pos", "assigns": "b64_pos,bin_pos,ret,c,d,acc,acc_len,v_errno,__CPROVER_object_upto(bin,bin_maxlen)", "inv": 'b64_pos <= b64_len && bin_pos <= bin_maxlen && ret == 0 && acc_len <= 6 && (acc_len & 1) == 0 && (is_urlsafe != 0) == ((variant & 4) != 0) && (acc_len == 0 ==> (bin_pos % 3 == 0 && b64_pos == 4 * (bin_pos / 3))) && (acc_len == 6 ==> (bin_pos % 3 == 0 && b64_pos == 4 * (bin_pos / 3) + 1)) && (acc_len == 4 ==> (bin_pos % 3 == 1 && b64_pos == 4 * (bin_pos / 3) + 2)) && (acc_len == 2 ==> (bin_pos % 3 == 2 && b64_pos == 4 * (bin_pos / 3) + 3)) && (g_k < b64_pos ==> ((((unsigned char)(b64[g_k])) >= 65 && ((unsigned char)(b64[g_k])) <= 90) || (((unsigned char)(b64[g_k])) >= 97 && ((unsigned char)(b64[g_k])) <= 122) || (((unsigned char)(b64[g_k])) >= 48 && ((unsigned char)(b64[g_k])) <= 57) || ((unsigned char)(b64[g_k])) == ((is_urlsafe != 0) ? 45 : 43) || ((unsigned char)(b64[g_k])) == ((is_urlsafe != 0) ? 95 : 47))) && (acc_len != 0 ==> ((acc & ((1u << acc_len) - 1u)) == (((unsigned int)(((unsigned char)(b64[b64_pos - 1])) >= 65 && ((unsigned char)(b64[b64_pos - 1])) <= 90 ? ((unsigned char)(b64[b64_pos - 1])) - 65 : (((unsigned char)(b64[b64_pos - 1])) >= 97 && ((unsigned char)(b64[b64_pos - 1])) <= 122 ? ((unsigned char)(b64[b64_pos - 1])) - 71 : (((unsigned char)(b64[b64_pos - 1])) >= 48 && ((unsigned char)(b64[b64_pos - 1])) <= 57 ? ((unsigned char)(b64[b64_pos - 1])) + 4 : (((unsigned char)(b64[b64_pos - 1])) == ((is_urlsafe != 0) ? 45 : 43) ? 62 : 63))))) & ((1u << acc_len) - 1u)))) && (g_m < bin_pos ==> bin[g_m] == ((g_m % 3 == 0) ? (unsigned char)((((unsigned int)(((unsigned char)(b64[4 * (g_m / 3) + 0])) >= 65 && ((unsigned char)(b64[4 * (g_m / 3) + 0])) <= 90 ? ((unsigned char)(b64[4 * (g_m / 3) + 0])) - 65 : (((unsigned char)(b64[4 * (g_m / 3) + 0])) >= 97 && ((unsigned char)(b64[4 * (g_m / 3) + 0])) <= 122 ? ((unsigned char)(b64[4 * (g_m / 3) + 0])) - 71 : (((unsigned char)(b64[4 * (g_m / 3) + 0])) >= 48 && ((unsigned char)(b64[4 * (g_m / 3) + 0])) <= 57 ? ((unsigned char)(b64[4 * (g_m / 3) + 0])) + 4 : (((unsigned char)(b64[4 * (g_m / 3) + 0])) == ((is_urlsafe != 0) ? 45 : 43) ? 62 : 63))))) << 2) | (((unsigned int)(((unsigned char)(b64[4 * (g_m / 3) + 1])) >= 65 && ((unsigned char)(b64[4 * (g_m / 3) + 1])) <= 90 ? ((unsigned char)(b64[4 * (g_m / 3) + 1])) - 65 : (((unsigned char)(b64[4 * (g_m / 3) + 1])) >= 97 && ((unsigned char)(b64[4 * (g_m / 3) + 1])) <= 122 ? ((unsigned char)(b64[4 * (g_m / 3) + 1])) - 71 : (((unsigned char)(b64[4 * (g_m / 3) + 1])) >= 48 && ((unsigned char)(b64[4 * (g_m / 3) + 1])) <= 57 ? ((unsigned char)(b64[4 * (g_m / 3) + 1])) + 4 : (((unsigned char)(b64[4 * (g_m / 3) + 1])) == ((is_urlsafe != 0) ? 45 : 43) ? 62 : 63))))) >> 4)) : ((g_m % 3 == 1) ? (unsigned char)(((((unsigned int)(((unsigned char)(b64[4 * (g_m / 3) + 1])) >= 65 && ((unsigned char)(b64[4 * (g_m / 3) + 1])) <= 90 ? ((unsigned char)(b64[4 * (g_m / 3) + 1])) - 65 : (((unsigned char)(b64[4 * (g_m / 3) + 1])) >= 97 && ((unsigned char)(b64[4 * (g_m / 3) + 1])) <= 122 ? ((unsigned char)(b64[4 * (g_m / 3) + 1])) - 71 : (((unsigned char)(b64[4 * (g_m / 3) + 1])) >= 48 && ((unsigned char)(b64[4 * (g_m / 3) + 1])) <= 57 ? ((unsigned char)(b64[4 * (g_m / 3) + 1])) + 4 : (((unsigned char)(b64[4 * (g_m / 3) + 1])) == ((is_urlsafe != 0) ? 45 : 43) ? 62 : 63))))) & 15) << 4) | (((unsigned int)(((unsigned char)(b64[4 * (g_m / 3) + 2])) >= 65 && ((unsigned char)(b64[4 * (g_m / 3) + 2])) <= 90 ? ((unsigned char)(b64[4 * (g_m / 3) + 2])) - 65 : (((unsigned char)(b64[4 * (g_m / 3) + 2])) >= 97 && ((unsigned char)(b64[4 * (g_m / 3) + 2])) <= 122 ? ((unsigned char)(b64[4 * (g_m / 3) + 2])) - 71 : (((unsigned char)(b64[4 * (g_m / 3) + 2])) >= 48 && ((unsigned char)(b64[4 * (g_m / 3) + 2])) <= 57 ? ((unsigned char)(b64[4 * (g_m / 3) + 2])) + 4 : (((unsigned char)(b64[4 * (g_m / 3) + 2])) == ((is_urlsafe != 0) ? 45 : 43) ? 62 : 63))))) >> 2)) : (unsigned char)(((((unsigned int)(((unsigned char)(b64[4 * (g_m / 3) + 2])) >= 65 && ((unsigned char)(b64[4 * (g_m / 3) + 2])) <= 90 ? ((unsigned char)(b64[4 * (g_m / 3) + 2])) - 65 : (((unsigned char)(b64[4 * (g_m / 3) + 2])) >= 97 && ((unsigned char)(b64[4 * (g_m / 3) + 2])) <= 122 ? ((unsigned char)(b64[4 * (g_m / 3) + 2])) - 71 : (((unsigned char)(b64[4 * (g_m / 3) + 2])) >= 48 && ((unsigned char)(b64[4 * (g_m / 3) + 2])) <= 57 ? ((unsigned char)(b64[4 * (g_m / 3) + 2])) + 4 : (((unsigned char)(b64[4 * (g_m / 3) + 2])) == ((is_urlsafe != 0) ? 45 : 43) ? 62 : 63))))) & 3) << 6) | ((unsigned int)(((unsigned char)(b64[4 * (g_m / 3) + 3])) >= 65 && ((unsigned char)(b64[4 * (g_m / 3) + 3])) <= 90 ? ((unsigned char)(b64[4 * (g_m / 3) + 3])) - 65 : (((unsigned char)(b64[4 * (g_m / 3) + 3])) >= 97 && ((unsigned char)(b64[4 * (g_m / 3) + 3])) <= 122 ? ((unsigned char)(b64[4 * (g_m / 3) + 3])) - 71 : (((unsigned char)(b64[4 * (g_m / 3) + 3])) >= 48 && ((unsigned char)(b64[4 * (g_m / 3) + 3])) <= 57 ? ((unsigned char)(b64[4 * (g_m / 3) + 3])) + 4 : (((unsigned char)(b64[4 * (g_m / 3) + 3])) == ((is_urlsafe != 0) ? 45 : 43) ? 62 : 63)))))))))'},
                  {"id": 1, "dec": "b64_len - b64_pos", "assigns": "b64_pos", "inv": "b64_pos <= b64_len"}],
                  "_sodium_base642bin_skip_padding": [
                  {"id": 0, "dec": "b64_len - *b64_pos_p", "assigns": "padding_len,c,*b64_pos_p,v_errno", "inv": "*b64_pos_p <= b64_len"}]}},
     "functions": ["sodium_base642bin", "b64_char_to_byte", "b64_urlsafe_char_to_byte"], "assumes": ["errno modelled as a plain global"],
     "what": "sodium_base642bin, strict mode (unpadded variants, no ignore set, no end pointer), EVERY text: success implies alphabet characters only, length != 1 mod 4, bin_len = floor(6 len / 8), zero trailing bits, every byte assembled from its digits per RFC 4648 (constant-time table look-ups proved equal to the alphabets)",
     "bound": "values: text <= 4096 bytes, capacity <= 4096; every loop iteration covered by the invariant"})

import os as _os, sys as _sys
_sys.path.insert(0, _os.path.join(_os.path.dirname(_os.path.abspath(__file__)), ".."))
from vlib import b64spec as _b64spec
_hp = _os.path.join(_os.path.dirname(_os.path.abspath(__file__)), "..", "contracts", "codecs_enc.h")
if not _os.path.exists(_hp) or open(_hp).read() != _b64spec.header():       # keep the function contract and the loop invariants in step
    open(_hp, "w").write(_b64spec.header())
OBLIGATIONS.append({"name": "c15.u.bin2base64", "props": ["C15", "C12"], "kind": "U", "tier": "quick", "src": "harness/codecs_du.c", "include": ["contracts/codecs_u.h", "contracts/codecs_enc.h"], "entry": "hu_bin2base64",
     "mode": "dfcc", "probe": False, "min_props": 30, "solver": "kissat", "timeout": 1500, "cbmc": ["--unwind", "24", "--object-bits", "12"],
     "dfcc": {"enforce": ["sodium_bin2base64/sodium_bin2base64_spec"], "replace": [], "loopspec": _b64spec.loopspec()},
     "functions": ["sodium_bin2base64", "b64_byte_to_char", "b64_byte_to_urlsafe_char"], "assumes": [],
     "what": "sodium_bin2base64, EVERY input up to 3072 bytes, all four variants, every sufficient capacity: character k is the RFC 4648 character of the k-th 6-bit group (zero padded), '=' padding up to the padded length, zero fill up to b64_maxlen, buffer returned (constant-time table functions thereby proved equal to the alphabets on the encoding path)",
     "bound": "values: input <= 3072 bytes, capacity <= 4200; every loop iteration covered by the invariants"})
