"""C06 - Ed25519 (also C02 for sign_open, C07 for canonical tests)"""
RC = ["--replace-calls", "_sodium_ge25519_frombytes_negate_vartime:s_frombytes_negate", "--replace-calls", "_sodium_ge25519_frombytes:s_frombytes",
      "--replace-calls", "_sodium_ge25519_has_small_order:s_small_order", "--replace-calls", "_sodium_ge25519_double_scalarmult_vartime:s_dsm",
      "--replace-calls", "_sodium_ge25519_p2_to_p3:s_p2_to_p3", "--replace-calls", "_sodium_ge25519_p3_sub:s_p3_sub", "--replace-calls", "_sodium_sc25519_reduce:s_reduce"]
GA = ["all Edwards25519 group and scalar arithmetic (point decoding, small-order test, double scalar multiplication, subtraction, reduction mod L) and SHA-512 are assumed callees with arbitrary results: "
      "that accepted signatures satisfy the equation over the real curve is NOT decided, only that no check is bypassed and the data flow is RFC 8032's"]


def ob(name, entry, fns, what, props=("C06", "C12"), **kw):
    o = {"name": name, "props": list(props), "kind": "F", "tier": "quick", "src": "harness/sign_open.c", "entry": entry, "replayable": False,
         "cbmc": ["--unwind", "34", "--unwinding-assertions", "--object-bits", "18"], "solver": "kissat", "timeout": 900, "functions": fns, "what": what, "bound": "none"}
    o.update(kw)
    return o


OBLIGATIONS = [
    ob("c06.f.is_canonical", "hf_is_canonical", ["sc25519_is_canonical", "ge25519_is_canonical"], "canonical-scalar test == (s < L) and canonical-point test == (y < 2^255-19) for all 2^256 inputs each",
       props=("C06", "C07", "C12"), replayable=True),
    ob("c06.f.verify_detached", "hf_verify", ["_crypto_sign_ed25519_verify_detached", "sc25519_is_canonical", "ge25519_is_canonical"],
       "strict verification: accept <=> all seven checks pass (S < L proved incl. the sig[63] & 240 shortcut; canonical A; decodable, not small-order A and R; cofactored equation), hash input order, operands of the final equation",
       props=("C06", "C02", "C12"), gi_pre=RC, assumes=GA, bound="values: message length <= 65535"),
    ob("c06.f.open", "hf_open", ["crypto_sign_ed25519_open"], "sign_open: shorter than 64 => -1; failure => zero-filled output and length 0; success => message copied and length smlen-64",
       props=("C06", "C02", "C12"), gi_pre=["--replace-calls", "crypto_sign_ed25519_verify_detached:s_verify_detached"], assumes=["verify_detached replaced by an arbitrary verdict here (its check set: c06.f.verify_detached)", "memmove over-approximated (exact at a ghost offset)"],
       bound="values: smlen <= 4160", cbmc=["--unwind", "66", "--unwinding-assertions", "--object-bits", "18"]),
]

SA = ["SHA-512, sc25519_reduce / muladd, ge25519_scalarmult_base / p3_tobytes and randombytes_buf are logging stubs with arbitrary-but-known results: equality with RFC 8032 test vectors is NOT decided, the data flow is"]
OBLIGATIONS += [
    ob("c06.f.sign_detached", "hf_sign_detached", ["_crypto_sign_ed25519_detached", "_crypto_sign_ed25519_ref10_hinit", "_crypto_sign_ed25519_clamp"],
       "signing data flow of RFC 8032 5.1.6 (plain and pre-hashed): az, r-hash input order, R, public key placed before hashing k, k-hash input order, clamp, S = k*a + r, signature R || S, every message length",
       src="harness/sign.c", assumes=SA, replayable=True, bound="values: message length <= 65535", cbmc=["--unwind", "66", "--unwinding-assertions", "--object-bits", "18"]),
    ob("c06.f.keypair", "hf_keypair", ["crypto_sign_ed25519_seed_keypair", "crypto_sign_ed25519_keypair"], "key generation: a = clamp(SHA-512(seed)[0..32)), pk = a*B, sk = seed || pk; random variant draws a 32-byte seed",
       src="harness/sign.c", props=("C06", "C18", "C12"), assumes=SA, replayable=True, cbmc=["--unwind", "66", "--unwinding-assertions"]),
    ob("c06.f.sk_to_curve25519", "hf_sk_to_curve", ["crypto_sign_ed25519_sk_to_curve25519"], "secret-key conversion uses the same clamped scalar as public-key derivation (the commuting property then rests on the assumed birational map)",
       src="harness/sign.c", assumes=SA, replayable=True, cbmc=["--unwind", "66", "--unwinding-assertions"]),
]

OBLIGATIONS.append(ob("c06.f.pk_to_curve25519", "hf_pk_to_curve", ["crypto_sign_ed25519_pk_to_curve25519", "fe25519_1", "fe25519_add (fe_51)", "fe25519_sub (fe_51)"],
    "Ed25519 public key -> X25519 public key: rejected (-1, output untouched) exactly when the point fails to decode, has small order or is outside the main subgroup (each test on the decoded point); "
    "otherwise the output is encode((1 + y) * (1 - y)^-1 mod p), RFC 7748's birational map, with the operands of the inversion and of the product checked as integers modulo 2^255-19",
    src="harness/sign.c", props=("C06",), defs=["-DVPK2CURVE=1"], gi_pre=["--replace-calls", "fe25519_mul:s_fe_mul"], replayable=False,
    assumes=["ge25519_frombytes_negate_vartime / has_small_order / is_on_main_subgroup are assumed callees with arbitrary verdicts and an arbitrary reduced y; fe25519_invert, fe25519_mul and fe25519_tobytes are assumed callees with arbitrary results (tobytes: c05.f.fe_codec); "
             "that the inverse and the product are the field inverse / product is NOT decided"],
    cbmc=["--unwind", "66", "--unwinding-assertions"]))
OBLIGATIONS.append(ob("c06.f.sk_parts", "hf_sk_parts", ["crypto_sign_ed25519_sk_to_seed", "crypto_sign_ed25519_sk_to_pk", "crypto_sign_ed25519_bytes/seedbytes/publickeybytes/secretkeybytes/messagebytes_max", "crypto_sign_ed25519ph_statebytes"],
    "sk_to_seed / sk_to_pk return the seed and public-key halves of every 64-byte secret key, also with the output placed at any offset inside the secret key (same result as disjoint); size constants",
    src="harness/sign_api.c", props=("C06",), defs=["-DPART=0"], replayable=True, cbmc=["--unwind", "100", "--unwinding-assertions"]))
OBLIGATIONS.append(ob("c06.f.generic_api", "hf_generic", ["crypto_sign_seed_keypair", "crypto_sign_keypair", "crypto_sign", "crypto_sign_open", "crypto_sign_detached", "crypto_sign_verify_detached", "crypto_sign_init", "crypto_sign_update", "crypto_sign_final_create", "crypto_sign_final_verify", "crypto_sign_*bytes"],
    "every generic crypto_sign_* entry point calls the corresponding Ed25519 function exactly once with its arguments unchanged and in order, and returns that function's verdict (a dropped or inverted verification verdict fails here)",
    src="harness/sign_api.c", props=("C06",), defs=["-DPART=1"], replayable=True, assumes=["the crypto_sign_ed25519* callees are logging stubs with an arbitrary verdict (their own obligations: c06.f.*)"], cbmc=["--unwind", "10", "--unwinding-assertions"]))
OBLIGATIONS.append(ob("c06.f.ph", "hf_ph", ["crypto_sign_ed25519ph_init", "crypto_sign_ed25519ph_update", "crypto_sign_ed25519ph_final_create", "crypto_sign_ed25519ph_final_verify"],
    "Ed25519ph: the multi-part API signs / verifies the 64-byte SHA-512 pre-hash with the pre-hashed (dom2) flag; verify returns the detached verdict",
    src="harness/sign_ph.c", defs=["-DPART=0"], replayable=True, assumes=["SHA-512 and the detached sign / verify are logging stubs (their own obligations: c06.f.sign_detached, c06.f.verify_detached)"],
    cbmc=["--unwind", "66", "--unwinding-assertions", "--object-bits", "18"], bound="values: message length <= 65535"))

for d_, t_ in ((-80, "quick"), (-64, "thorough"), (-1, "quick"), (0, "quick"), (1, "quick"), (63, "thorough"), (64, "quick"), (80, "quick")):
    OBLIGATIONS.append(ob("c13.b.sign.delta_%d" % d_, "hb_sign_overlap", ["crypto_sign_ed25519"],
        "crypto_sign_ed25519 with the message overlapping the output at sm - m = %d bytes: the message is moved first, the original bytes get signed" % d_,
        src="harness/sign.c", props=("C13", "C06", "C12"), kind="B", tier=t_, defs=["-DVDELTA=(%d)" % d_, "-DVSIGN_OVERLAP=1"], replayable=False,
        gi_pre=["--replace-calls", "crypto_sign_ed25519_detached:s_sign_detached"], cbmc=["--unwind", "90", "--unwinding-assertions", "--object-bits", "12"],
        assumes=["crypto_sign_ed25519_detached replaced by a logging stub (its own obligation: c06.f.sign_detached)", "memmove over-approximated: first 64 bytes and one ghost byte exact"],
        bound="message length <= 80 bytes, relative offset %d" % d_))

SC = ["general a: the 21-bit limb products a_i*b_j (symbolic multipliers) and the folding of fully symbolic high limbs are NOT decided (SAT does not finish); these obligations fix a in {0,1} / s < 2^256 so that every product folds"]
for av_ in (0, 1):
    OBLIGATIONS.append(ob("c06.f.sc_muladd.a_%d" % av_, "hf_muladd_01", ["sc25519_muladd"], "sc25519_muladd(a, b, c) for a = %d and every b, c < 2^256: result < L and congruent to a*b + c modulo L (exact 600-bit integer arithmetic): limb loading, all carry chains, the folding of the high limbs, the final conditional passes" % av_,
       src="harness/sc_reduce.c", props=("C06", "C07", "C12"), defs=["-DAVAL=%d" % av_, "-DAIDX=0"], assumes=SC, replayable=True, cbmc=["--unwind", "70", "--unwinding-assertions"], timeout=1500))
OBLIGATIONS.append(ob("c06.f.sc_reduce.below_2_256", "hf_reduce", ["sc25519_reduce"], "sc25519_reduce(s) for every s below 2^256 (upper 32 bytes zero): result < L and congruent to s modulo L (exact integer arithmetic)",
       src="harness/sc_reduce.c", props=("C06", "C07", "C12"), defs=["-DRB=32"], assumes=SC, replayable=True, cbmc=["--unwind", "300", "--unwinding-assertions"], timeout=1500, bound="none for s < 2^256; s >= 2^256 not decided"))

for d_, t_ in ((-80, "quick"), (-17, "quick"), (-1, "quick"), (0, "quick"), (1, "quick"), (17, "quick"), (64, "quick"), (80, "quick"), (100, "thorough")):
    OBLIGATIONS.append(ob("c13.b.sign_open.delta_%d" % d_, "hb_open_overlap", ["crypto_sign_ed25519_open"],
        "crypto_sign_ed25519_open with the output overlapping the signed message at m - sm = %d bytes: the signature is verified over the untouched input, the original message is delivered" % d_,
        props=("C13", "C06", "C12"), kind="B", tier=t_, defs=["-DVDELTA=(%d)" % d_], replayable=False,
        gi_pre=["--replace-calls", "crypto_sign_ed25519_verify_detached:s_verify_detached"], cbmc=["--unwind", "90", "--unwinding-assertions", "--object-bits", "12"],
        assumes=["crypto_sign_ed25519_verify_detached replaced by an arbitrary verdict (its check set: c06.f.verify_detached)", "memmove over-approximated: first 64 bytes and one ghost byte exact"],
        bound="message length <= 80 bytes, relative offset %d" % d_))

OBLIGATIONS.append(ob("c07.f.sc_mul.a_1", "hf_mul_01", ["sc25519_mul"], "sc25519_mul(a, b) for a = 1 and every b < 2^256: result < L and congruent to b modulo L (exact integer arithmetic); sc25519_mul is a separate copy of the muladd arithmetic (used by scalar inversion and crypto_core_ed25519_scalar_mul)",
       src="harness/sc_reduce.c", props=("C07", "C12"), defs=["-DAVAL=1", "-DAIDX=0"], assumes=SC, replayable=True, cbmc=["--unwind", "70", "--unwinding-assertions"], timeout=1500))
