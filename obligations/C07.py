"""C07 - Edwards25519 / Ristretto255 group and scalar API (validation logic and data flow; arithmetic assumed)"""
GA = ["group arithmetic (decode, on-curve, small-order, subgroup tests, add/sub, encodings, Elligator) and sc25519_reduce/invert/mul are assumed callees with arbitrary results: exactness of the arithmetic against the integers / the curve is NOT decided",
      "congruences used: L*2^256 - s = -s (mod L) and 1 + L*2^256 - s = 1 - s (mod L) (paper)"]


def ob(name, entry, fns, what, kind="F", props=("C07", "C12"), **kw):
    o = {"name": name, "props": list(props), "kind": kind, "tier": "quick", "src": "harness/core_ed.c", "entry": entry,
         "cbmc": ["--unwind", "66", "--unwinding-assertions"], "solver": "kissat", "timeout": 900, "functions": fns, "what": what, "bound": "none", "assumes": GA}
    o.update(kw)
    return o


OBLIGATIONS = [
    ob("c07.f.valid_point", "hf_valid_point", ["crypto_core_ed25519_is_valid_point"], "valid-point predicate = conjunction of the five tests"),
    ob("c07.f.add_sub", "hf_add_sub", ["crypto_core_ed25519_add", "crypto_core_ed25519_sub"], "add / sub reject exactly when a decode or on-curve test fails; otherwise encode p +/- q; nothing written on failure"),
    ob("c07.f.scalar_negate", "hf_scalar_negate", ["crypto_core_ed25519_scalar_negate", "crypto_core_ed25519_scalar_complement", "sodium_sub"], "negate / complement: the value handed to the reduction is L*2^256 - s resp. 1 + L*2^256 - s for all 2^256 inputs"),
    ob("c07.f.scalar_add", "hf_scalar_add", ["crypto_core_ed25519_scalar_add", "crypto_core_ed25519_scalar_reduce", "sodium_add"], "add: the value handed to the reduction is x + y (exact for inputs below 2^255)"),
    ob("c07.f.scalar_invert", "hf_scalar_invert", ["crypto_core_ed25519_scalar_invert", "sodium_is_zero"], "invert: -1 exactly for the zero scalar"),
    ob("c07.b.scalar_random", "hb_scalar_random", ["crypto_core_ed25519_scalar_random"], "random scalar: redraws 32 bytes until canonical and non-zero, top bits cleared", kind="B", props=("C07", "C18", "C12"),
       bound="an acceptable draw among the first 3 (every draw value)"),
    ob("c07.f.random_point", "hf_random_point", ["crypto_core_ed25519_random"], "random point = from_uniform(32 random bytes)", props=("C07", "C18")),
]

OBLIGATIONS += [
    ob("c07.f.scalarmult_ed25519", "hf_scalarmult", ["crypto_scalarmult_ed25519", "crypto_scalarmult_ed25519_noclamp", "crypto_scalarmult_ed25519_base", "crypto_scalarmult_ed25519_base_noclamp", "_crypto_scalarmult_ed25519_is_inf"],
       "point validated before multiplication; scalar clamped or not exactly as documented; identity result / zero scalar => -1", src="harness/scalarmult_ed.c", cbmc=["--unwind", "34", "--unwinding-assertions"]),
]
for alg in (0, 1):
    for hl in (48, 96):
        for cl, t in ((0, "quick"), (255, "quick"), (256, "quick"), (1, "thorough"), (300, "thorough")):
            OBLIGATIONS.append(ob("c07.f.h2c.sha%d.len_%d.ctx_%d" % (512 if alg else 256, hl, cl), "hf_h2c", ["core_h2c_string_to_hash", "core_h2c_string_to_hash_sha%d" % (512 if alg else 256)],
                                  "expand_message_xmd structure for a %d-byte context (also NULL), every message length: oversize-DST rule (> 255 only), b_0 and b_i inputs, counter and length bytes" % cl,
                                  src="harness/h2c.c", defs=["-DALG512=%d" % alg, "-DHLEN=%d" % hl, "-DCTXLEN=%d" % cl], cbmc=["--unwind", "302", "--unwinding-assertions", "--object-bits", "14"], timeout=900, tier=t,
                                  assumes=["SHA-256 / SHA-512 replaced by logging stubs returning arbitrary-but-known digests", "byte equality of the output with b_1||b_2.. is not part of this obligation"],
                                  bound="none on the message (constant context length %d; message length <= 4096)" % cl))

OBLIGATIONS += [
    ob("c07.f.ristretto_points", "hf_ristretto_points", ["crypto_core_ristretto255_is_valid_point", "crypto_core_ristretto255_add", "crypto_core_ristretto255_sub", "crypto_core_ristretto255_random"],
       "Ristretto255: valid-point == decodable; add/sub reject invalid encodings and write nothing; random element from 64 random bytes", src="harness/ristretto.c", props=("C07", "C18", "C12"), cbmc=["--unwind", "70", "--unwinding-assertions"]),
    ob("c07.f.ristretto_scalarmult", "hf_ristretto_scalarmult", ["crypto_scalarmult_ristretto255", "crypto_scalarmult_ristretto255_base"],
       "Ristretto255 scalar multiplication: invalid points rejected first, scalar unclamped (bit 255 cleared), identity result => -1", src="harness/ristretto.c", cbmc=["--unwind", "34", "--unwinding-assertions"]),
]
