"""C09 - secretstream (also serves C02, C12, C18)"""
ASSUME = ["primitives replaced by assumed transcript contracts (stubs/transcript.h): crypto_stream_chacha20_ietf{,_xor,_xor_ic}, crypto_core_hchacha20, "
          "crypto_onetimeauth_poly1305_init/update/final, randombytes_buf; deterministic functions of their logged arguments",
          "history-level statement (push/pull stay synchronised over any interleaving) is a paper induction over the two machine-checked premises: common transition ss_next and frame on rejection"]


def ob(entry, props, what, **kw):
    o = {"name": "c09.f." + entry[3:], "props": props, "kind": "F", "tier": "quick", "src": "harness/secretstream.c", "entry": entry,
         "cbmc": ["--unwind", "66", "--unwinding-assertions", "--object-bits", "18"], "solver": "kissat", "timeout": 900,
         "functions": ["crypto_secretstream_xchacha20poly1305_" + entry[3:]], "what": what, "assumes": ASSUME,
         "bound": "none on iterations (loop free after replacing the primitives; 4/8/16-byte helper loops fully unwound); values: mlen, adlen <= 65535"}
    o.update(kw)
    return o


OBLIGATIONS = [
    ob("hf_pull", ["C09", "C02", "C12"], "pull: chunk layout recomputed identically, accept iff authenticator equal (16 bytes), rejected pull leaves the 52 state bytes, output, length (0) and tag (0xff) as documented; accepted pull applies ss_next incl. counter wrap / REKEY tag rekey"),
    ob("hf_push", ["C09", "C01", "C12"], "push: documented ChaCha20-Poly1305 chunk construction and the same ss_next transition; symbolic counter covers the 2^32 wrap"),
    ob("hf_push_toolong", ["C09", "C12"], "mlen > MESSAGEBYTES_MAX reaches the misuse handler before any primitive"),
    ob("hf_rekey", ["C09"], "explicit rekey"),
    ob("hf_init", ["C09", "C18"], "init_push / init_pull derive the same state from header and key; header = 24 bytes from the random source"),
    ob("hf_keygen", ["C18"], "keygen requests 32 bytes from the random source"),
]
