"""C03 - stream ciphers"""


def ob(name, src, entry, fns, what, kind="F", **kw):
    o = {"name": name, "props": ["C03", "C12"], "kind": kind, "tier": "quick", "src": src, "entry": entry,
         "cbmc": ["--unwind", "66", "--unwinding-assertions"], "solver": "kissat", "timeout": 900, "functions": fns, "what": what, "bound": "none"}
    o.update(kw)
    return o


OBLIGATIONS = [
    ob("c03.f.ietf_counter_guard", "harness/chacha_dispatch.c", "hf_ietf_counter_guard", ["crypto_stream_chacha20_ietf_xor_ic"],
       "the IETF xor_ic entry reaches the misuse handler exactly when ic + ceil(mlen/64) > 2^32 (all 2^96 argument values); otherwise forwards unchanged"),
    ob("c03.f.ietf_len_guards", "harness/chacha_dispatch.c", "hf_ietf_len_guards", ["crypto_stream_chacha20_ietf", "crypto_stream_chacha20_ietf_xor"],
       "the IETF stream / xor entries refuse more than 2^32 blocks"),
    ob("c03.f.forwarding", "harness/chacha_dispatch.c", "hf_forwarding", ["crypto_stream_chacha20", "crypto_stream_chacha20_xor", "crypto_stream_chacha20_xor_ic", "crypto_stream_chacha20_ietf_ext", "crypto_stream_chacha20_ietf_ext_xor_ic"],
       "every other entry forwards its arguments unchanged to the selected back end (xor = xor_ic with counter 0)"),
]


def blk(nb, tier="quick", inplace=0, **kw):
    o = ob("c03.f.chacha20_ref.bytes_%d%s" % (nb, ".inplace" if inplace else ""), "harness/chacha_ref.c", "hf_block", ["chacha20_encrypt_bytes (ref)"],
           "real ChaCha20 ref core over %d bytes from every state == message XOR RFC 8439 block(s); counter +%d with carry; in place or not; nothing beyond written" % (nb, (nb + 63) // 64),
           props=["C03", "C12", "C13"], defs=["-DNB=%d" % nb, "-DINPLACE=%d" % inplace], tier=tier, timeout=900, cbmc=["--unwind", "130", "--unwinding-assertions"],
           bound="none (constant length %d bytes, every state / message / counter value)" % nb)
    o.update(kw)
    return o


OBLIGATIONS += [blk(64), blk(64, inplace=1), blk(1), blk(63), blk(63, inplace=1, tier="thorough"), blk(33, tier="thorough")]
# lengths above one block: one obligation per output block (the two-block miter in a single query does not finish in 900 s)
for nb_ in (65, 128, 129):
    for b_ in range((nb_ + 63) // 64):
        o_ = blk(nb_, tier="thorough", cbmc=["--unwind", str(nb_ + 12), "--unwinding-assertions"], timeout=3000)
        o_["name"] += ".blk%d" % b_
        o_["defs"] = o_["defs"] + ["-DVONLYBLK=%d" % b_]
        o_["what"] += " [output bytes of block %d; sibling obligations take the other blocks]" % b_
        OBLIGATIONS.append(o_)


def core(name, coreid, fn, rounds=None, have_c=0, tier="quick"):
    defs = ["-DCORE=%d" % coreid, "-DHAVE_C=%d" % have_c] + (["-DROUNDS=%d" % rounds] if rounds else [])
    return ob("c03.f.core." + name, "harness/cores.c", "hf_core", [fn], fn + " equals its specification for every input" + (" (caller-supplied constant)" if have_c else " (default constant)"),
              defs=defs, tier=tier, timeout=1200, cbmc=["--unwind", "66", "--unwinding-assertions"], no_safety=True)


OBLIGATIONS += [core("salsa20", 0, "crypto_core_salsa20", 20), core("salsa2012", 0, "crypto_core_salsa2012", 12), core("salsa208", 0, "crypto_core_salsa208", 8),
                core("hsalsa20", 1, "crypto_core_hsalsa20"), core("hchacha20", 2, "crypto_core_hchacha20"),
                core("salsa20.const", 0, "crypto_core_salsa20", 20, have_c=1, tier="thorough"), core("hsalsa20.const", 1, "crypto_core_hsalsa20", have_c=1, tier="thorough"),
                core("hchacha20.const", 2, "crypto_core_hchacha20", have_c=1, tier="thorough")]

OBLIGATIONS += [
] + [
    ob("c03.f.salsa20_ref.bytes_%d" % nb, "harness/salsa_ref.c", "hb_stream", ["stream_ref (salsa20)", "stream_ref_xor_ic (salsa20)"],
       "Salsa20 ref streaming over %d bytes: per-block core input nonce||le64(ic+i) for every initial counter (carry over 8 bytes), XOR and plain form, exact length" % nb,
       defs=["-DNB=%d" % nb, "-DVBLKS=%d" % max(1, (nb + 63) // 64)], bound="none (constant length %d, every counter / key / nonce / message)" % nb,
       cbmc=["--unwind", str(64 * max(1, (nb + 63) // 64) + 12), "--unwinding-assertions"], timeout=600, tier=t,
       assumes=["crypto_core_salsa20 replaced by a logging stub returning arbitrary-but-known blocks; its equality with the specification is c03.f.core.salsa20"])
    for nb, t in ((0, "quick"), (1, "quick"), (64, "quick"), (65, "quick"), (63, "thorough"), (128, "thorough"), (130, "thorough"))
] + [
    ob("c03.f.%s_ref.bytes_%d" % (nm, nb), "harness/salsa_ref.c", "hb_stream", ["crypto_stream_%s" % nm, "crypto_stream_%s_xor" % nm],
       "%s streaming over %d bytes: block i from nonce||le64(i) under the key, XOR and plain form, exact length (the byte carry of the block counter is not reached at this length: NOT decided)" % (nm, nb),
       defs=["-DNB=%d" % nb, "-DVBLKS=%d" % max(1, (nb + 63) // 64), "-DSVAR=%d" % sv], bound="none (constant length %d, every key / nonce / message)" % nb,
       cbmc=["--unwind", str(64 * max(1, (nb + 63) // 64) + 12), "--unwinding-assertions"], timeout=600, tier=t,
       assumes=["crypto_core_%s replaced by a logging stub returning arbitrary-but-known blocks; its equality with the specification is c03.f.core.%s" % (nm, nm)])
    for sv, nm in ((1, "salsa2012"), (2, "salsa208")) for nb, t in ((0, "quick"), (1, "quick"), (65, "quick"), (128, "thorough"))
] + [
    ob("c03.f.xchacha20", "harness/xstream.c", "hf_xstream", ["crypto_stream_xchacha20", "crypto_stream_xchacha20_xor", "crypto_stream_xchacha20_xor_ic"],
       "XChaCha20 = ChaCha20(nonce[16..24), HChaCha20(key, nonce[0..16)), counter) for every length and counter", defs=["-DVARX=0"], cbmc=["--unwind", "34", "--unwinding-assertions", "--object-bits", "18"],
       assumes=["crypto_core_hchacha20 / crypto_stream_chacha20* replaced by transcript stubs (proved separately: c03.f.core.hchacha20, c03.f.chacha20_ref.*)"]),
    ob("c03.f.xsalsa20", "harness/xstream.c", "hf_xstream", ["crypto_stream_xsalsa20", "crypto_stream_xsalsa20_xor", "crypto_stream_xsalsa20_xor_ic"],
       "XSalsa20 = Salsa20(nonce[16..24), HSalsa20(key, nonce[0..16)), counter) for every length and counter", defs=["-DVARX=1"], cbmc=["--unwind", "34", "--unwinding-assertions", "--object-bits", "18"],
       assumes=["crypto_core_hsalsa20 / crypto_stream_salsa20* replaced by transcript stubs (proved separately)"]),
]

OBLIGATIONS += [
    ob("c03.f.chacha20_ref.setup", "harness/chacha_ref.c", "hf_setup", ["stream_ref", "stream_ietf_ext_ref", "stream_ref_xor_ic", "stream_ietf_ext_ref_xor_ic", "chacha_keysetup", "chacha_ivsetup", "chacha_ietf_ivsetup"],
       "ChaCha20 ref entry points build the RFC 8439 / djb state (constants, key words, counter and nonce placement for both layouts), zero the output for plain streams, pass the caller's buffers and length, and do nothing for length 0",
       gi_pre=["--replace-calls", "chacha20_encrypt_bytes:v_encrypt_bytes_stub"], replayable=False, cbmc=["--unwind", "34", "--unwinding-assertions", "--object-bits", "18"],
       assumes=["chacha20_encrypt_bytes replaced by a logging stub here (its own correctness: c03.f.chacha20_ref.bytes_*)"], bound="values: length <= 65535"),
]

OBLIGATIONS.append(ob("c03.f.generic_api", "harness/generic_c03.c", "hf_generic_c03", ["crypto_stream", "crypto_stream_xor", "crypto_stream_keygen", "size accessors"],
    "the generic crypto_stream / crypto_stream_xor call XSalsa20 exactly once with the caller's arguments unchanged (every length) and return its result; keygen draws 32 bytes",
    props=["C03"], replayable=True, cbmc=["--unwind", "10", "--unwinding-assertions"], assumes=["crypto_stream_xsalsa20* are logging stubs here (their own obligations: c03.f.xsalsa20*)"]))
