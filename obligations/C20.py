"""C20 - memory exhaustion fails closed"""
ASSUME = ["allocators fail nondeterministically and independently (harness stubs for malloc via -D style rename inside the harness, mmap/munmap); "
          "compute kernels replaced by frame-only stubs: crypto_generichash_blake2b_*, blake2b_long, argon2_fill_segment_ref, argon2_encode_string/decode_string, sodium_memcmp (arbitrary result), sodium_memzero; the 1 KiB block kernels load_block/store_block/copy_block/xor_block and argon2_initial_hash are abstracted to no-ops (goto-instrument --remove-function-body / --generate-function-body): they only write block contents, which no obligation reads"]


def ob(name, src, entry, fns, what, **kw):
    ker = ["load_block", "store_block", "copy_block", "xor_block", "argon2_initial_hash"]
    gi = sum([["--remove-function-body", k] for k in ker], []) + ["--generate-function-body", "(" + "|".join(ker) + ")", "--generate-function-body-options", "nondet-return"]
    o = {"name": name, "gi_pre": gi, "props": ["C20", "C12"], "kind": "F", "tier": "quick", "src": src, "entry": entry, "replayable": False,
         "cbmc": ["--unwind", "16", "--unwinding-assertions", "--object-bits", "10"], "solver": "kissat", "timeout": 900,
         "functions": fns, "what": what, "assumes": ASSUME,
         "bound": "every subset of failing allocation requests (up to 8 requests, more than any path performs); values: m_cost <= 8 (rounded up to the 8-block minimum, so the block memory has constant size), t_cost <= 2, one lane"}
    o.update(kw)
    return o


OBLIGATIONS = [
    ob("c20.f.argon2_hash", "harness/argon2_alloc.c", "hf_hash", ["argon2_hash", "argon2_ctx", "argon2_initialize", "allocate_memory", "free_memory", "argon2_free_instance", "argon2_finalize", "argon2_fill_memory_blocks"],
       "argon2_hash (both types): any failing malloc/mmap => error return; every allocation released exactly once on every path; munmap only on the live mapping with its own size; fill kernel only runs with allocated memory"),
    ob("c20.f.argon2_verify", "harness/argon2_alloc.c", "hf_verify", ["argon2_verify", "argon2_hash", "argon2_ctx", "argon2_initialize", "allocate_memory", "free_memory"],
       "argon2_verify: any failing allocation (its own four buffers, or inside argon2_hash) => never ARGON2_OK; OK only if the comparison returned equal; no leak / double free",
       gi_pre=["--replace-calls", "_sodium_argon2_hash:v_argon2_hash_stub"],
       assumes=ASSUME + ["inside argon2_verify the call to argon2_hash is replaced by its contract (internal allocation failure => error), which c20.f.argon2_hash proves on the real body"]),
]

SC = ["mmap fails nondeterministically (harness stub); escrypt_PBKDF2_SHA256 is a frame-only stub requiring live buffers; smix abstracted to a no-op (it only touches the working area contents)"]
for nm, entry, fns, what in [
    ("c20.f.scrypt_region", "hf_region", ["escrypt_alloc_region", "escrypt_free_region", "escrypt_init_local", "escrypt_free_local"],
     "escrypt_alloc_region: failed mapping => NULL and an empty region; success => region records the mapping; free releases exactly once"),
    ("c20.f.scrypt_kdf", "hf_kdf", ["escrypt_kdf_nosse", "escrypt_alloc_region", "escrypt_free_region"],
     "escrypt_kdf_nosse: a failed mapping => -1; PBKDF2 only ever runs on live memory of sufficient size; region growth frees the old area first; no leak / double unmap")]:
    OBLIGATIONS.append({"name": nm, "props": ["C20", "C12"], "kind": "F", "tier": "quick", "src": "harness/scrypt_alloc.c", "entry": entry, "replayable": False,
        "gi_pre": ["--remove-function-body", "smix", "--generate-function-body", "smix", "--generate-function-body-options", "nondet-return"],
        "cbmc": ["--unwind", "6", "--unwinding-assertions", "--object-bits", "10"], "solver": "kissat", "timeout": 600, "functions": fns, "what": what, "assumes": SC,
        "bound": "every failing subset of mapping requests; values: N <= 16, r, p <= 2 (sizes only matter through the arithmetic, which is symbolic)"})
