"""C17 - guarded allocation (also C20: mapping failure; C12)"""
ASSUME = ["OS calls replaced by logging stubs (harness/alloc.c): mmap returns page-aligned fresh memory or MAP_FAILED; mprotect/mlock/munlock/madvise/munmap succeed; "
          "a PROT_NONE page faults on access (operating-system semantics, assumed); raise/abort terminate the process",
          "page size in {4096, 16384, 65536} (sysconf stub)"]


def ob(entry, props, what, kind="F", **kw):
    o = {"name": "c17.%s.%s" % (kind.lower(), entry[3:]), "props": props, "kind": kind, "tier": "quick", "src": "harness/alloc.c", "entry": entry,
         "cbmc": ["--unwind", "18", "--unwinding-assertions", "--object-bits", "10"], "solver": "kissat", "timeout": 600, "replayable": False,
         "functions": [], "what": what, "assumes": ASSUME,
         "bound": "none on iterations (16-byte canary loops unwound); values: size <= 3 pages + 17, three page sizes"}
    o.update(kw)
    return o


OBLIGATIONS = [
    ob("hf_malloc", ["C17", "C20", "C12"], "sodium_malloc layout for every size <= 3 pages+17: user end == start of the PROT_NONE trailing guard page, canary directly before, header, locks, 0xdb fill; mapping failure => NULL", functions=["sodium_malloc", "_sodium_malloc", "_page_round", "_unprotected_ptr_from_user_ptr", "_sodium_alloc_init"]),
    ob("hf_malloc_huge", ["C17", "C12"], "size >= SIZE_MAX - 4 pages => NULL/ENOMEM, nothing mapped", functions=["sodium_malloc"], bound="none (all sizes above the limit)"),
    ob("hb_allocarray_overflow", ["C17", "C12"], "count*size overflow => NULL/ENOMEM, nothing mapped", kind="B", functions=["sodium_allocarray"],
       bound="count <= 64 with all sizes, or size <= 64 with all counts (the general 64-bit division fact does not discharge on any back end); remaining cases rest on the elementary lemma size < floor(M/count) => count*size <= M"),
    ob("hf_allocarray_ok", ["C17"], "non-overflowing small arrays get the sodium_malloc(count*size) layout", functions=["sodium_allocarray"], bound="count <= 8, size <= 512"),
    ob("hf_mprotect", ["C17"], "sodium_mprotect_noaccess/readonly/readwrite: one mprotect over all data pages (covers the whole user region up to the guard page), for any prior state", functions=["sodium_mprotect_noaccess", "sodium_mprotect_readonly", "sodium_mprotect_readwrite", "_sodium_mprotect"]),
    ob("hf_free", ["C17", "C12"], "sodium_free: mapping made read-write first; any altered byte among the 16 before the user region terminates the process; intact => unlocked and the original mapping unmapped", functions=["sodium_free"]),
    ob("hf_free_null", ["C17"], "sodium_free(NULL) is a no-op", functions=["sodium_free"]),
]
