"""crypto_secretbox (XSalsa20-Poly1305 and XChaCha20-Poly1305) composition layer (C01, C02, C12, C13)"""
NAMES = {0: "xsalsa20poly1305", 1: "xchacha20poly1305"}
ASSUME = ["primitives replaced by assumed transcript contracts (stubs/transcript.h): crypto_core_hsalsa20/hchacha20, crypto_stream_salsa20/chacha20 xor and xor_ic, "
          "crypto_onetimeauth_poly1305 init/update/final/verify, sodium_memzero; deterministic functions of their logged arguments"]


def ob(var, entry, props, what, **kw):
    o = {"name": "secretbox.b.%s.%s" % (NAMES[var], entry[3:]), "props": props, "kind": "B", "tier": "quick", "src": "harness/secretbox.c",
         "entry": entry, "defs": ["-DVAR=%d" % var, "-DVLMAX=80ULL", "-DVBUFSZ=96"],
         "cbmc": ["--unwind", "34", "--unwindset", "v_eq.0:66,v_is_zero.0:66,v_fixed_out.0:66", "--unwinding-assertions", "--object-bits", "14"],
         "solver": "kissat", "timeout": 600,
         "functions": ["crypto_secretbox%s_%s" % ("" if var == 0 else "_xchacha20poly1305", entry[3:])], "what": what, "assumes": ASSUME,
         "bound": "message length <= 80 bytes (buffers are 96-byte objects; symbolic-size objects make CBMC's array post-processing diverge here), every content, key, nonce"}
    o.update(kw)
    return o


OBLIGATIONS = []
for v in (0, 1):
    OBLIGATIONS += [
        ob(v, "hf_detached", ["C01", "C12", "C13"], "NaCl secretbox layout: sub-key derivation, block 0 = 0^32||m[0..32), Poly1305 key from block 0, stream from counter 1 for the rest, MAC over c, wipes; also c == m"),
        ob(v, "hf_easy", ["C01", "C12"], "easy == detached with output mac||c"),
        ob(v, "hf_easy_toolong", ["C12"], "mlen > MESSAGEBYTES_MAX reaches the misuse handler first", kind="F", name="secretbox.f.%s.easy_toolong" % NAMES[v], bound="none (all lengths above the limit)"),
        ob(v, "hf_open_detached", ["C02", "C01", "C12", "C13"], "tag verified first over the whole ciphertext; on failure -1, output untouched, no keystream applied; verify-only mode; success path mirrors sealing"),
        ob(v, "hf_open_easy", ["C02", "C01", "C12"], "clen < 16 rejected untouched; otherwise open_detached(c+16, mac=c, clen-16)"),
    ]

# ---- C13: overlapping message / ciphertext buffers (one object, constant relative offset, every length <= 80) ----
for v in (0, 1):
    for d, t in ((-40, "quick"), (-17, "quick"), (-1, "quick"), (0, "quick"), (1, "quick"), (17, "quick"), (40, "quick"), (-80, "thorough"), (-33, "thorough"), (-31, "thorough"), (31, "thorough"), (33, "thorough"), (80, "thorough")):
        for entry in ("hb_overlap_seal", "hb_overlap_open"):
            OBLIGATIONS.append({"name": "c13.b.secretbox.%s.%s.delta_%d" % (NAMES[v], entry[11:], d), "props": ["C13", "C12"], "kind": "B", "tier": t, "src": "harness/secretbox.c", "entry": entry,
                "defs": ["-DVAR=%d" % v, "-DVLMAX=80ULL", "-DVBUFSZ=96", "-DVDELTA=(%d)" % d], "cbmc": ["--unwind", "66", "--unwinding-assertions", "--object-bits", "14"], "solver": "kissat", "timeout": 600,
                "functions": ["crypto_secretbox%s_%s" % ("" if v == 0 else "_xchacha20poly1305", "detached" if entry.endswith("seal") else "open_detached")],
                "what": "message and ciphertext overlapping in one object with output - input = %d bytes: every stream call gets identical or non-overlapping buffers and consumes the ORIGINAL input bytes, so the result equals the disjoint-buffer result" % d,
                "assumes": ASSUME + ["memmove over-approximated: first 64 bytes and one ghost byte exact, the rest arbitrary"], "bound": "message length <= 80 bytes, relative offset %d" % d})
