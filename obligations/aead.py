"""ChaCha20-Poly1305 AEAD family: composition layer against the ghost transcript (C01, C02, C12, C13, C18)"""
NAMES = {0: "chacha20poly1305", 1: "chacha20poly1305_ietf", 2: "xchacha20poly1305_ietf"}
ASSUME = ["primitives replaced by assumed transcript contracts (stubs/transcript.h): crypto_stream_chacha20*, crypto_core_hchacha20, "
          "crypto_onetimeauth_poly1305_init/update/final, sodium_memzero (proved separately in C14), randombytes_buf; "
          "they are deterministic functions of their logged arguments"]


def ob(var, entry, props, what, **kw):
    o = {"name": "aead.f.%s.%s" % (NAMES[var], entry[3:]), "props": props, "kind": "F", "tier": "quick", "src": "harness/aead_cp.c",
         "entry": entry, "defs": ["-DVAR=%d" % var], "cbmc": ["--unwind", "66", "--unwinding-assertions", "--object-bits", "18"],
         "solver": "kissat", "timeout": 600,
         "functions": ["crypto_aead_%s_%s" % (NAMES[var], entry[3:])], "what": what, "assumes": ASSUME,
         "bound": "none on iterations (loop free after replacing the primitives); values: mlen, adlen <= 65535 (object-size bound)"}
    o.update(kw)
    return o


OBLIGATIONS = []
for v in (0, 1, 2):
    OBLIGATIONS += [
        ob(v, "hf_encrypt_detached", ["C01", "C12", "C13"], "construction: key block, one-time key, MAC layout of the specification, ciphertext from block counter 1, tag output, wipes; also with c == m"),
        ob(v, "hf_encrypt", ["C01", "C12", "C13"], "combined form == detached form with mac = c+mlen, *clen_p = mlen+16"),
        ob(v, "hf_encrypt_toolong", ["C12"], "mlen > MESSAGEBYTES_MAX reaches the misuse handler before any primitive runs"),
        ob(v, "hf_decrypt_detached", ["C02", "C01", "C12", "C13"], "accept iff recomputed tag == tag (16 bytes); same MAC transcript as encryption; on failure no keystream applied and output zero; verify-only mode (m == NULL); also m == c"),
        ob(v, "hf_decrypt", ["C02", "C01", "C12"], "clen < 16 rejected untouched; otherwise detached semantics on (c, clen-16, c+clen-16); *mlen_p = clen-16 on success, 0 on failure"),
        ob(v, "hf_keygen", ["C18"], "keygen requests exactly KEYBYTES from the random source into k"),
    ]

# AEGIS soft decrypt_detached (harness/aegis.c) was attempted: CBMC's symbolic execution does not finish on the 8-block
# state machine within 15 minutes even for mlen <= 40 with the AES round abstracted; the obligation is therefore not
# registered (DESIGN.md 11.2: AEGIS not covered).
