"""C14 - constant-time helpers compute exact comparisons and little-endian arithmetic"""
U = "harness/utils_u.c"
H = ["contracts/utils_c14.h"]
DF = ["--unwind", "8", "--object-bits", "12"]


def u(name, fn, entry, loopspec, what, timeout=600, tier="quick", solver="z3", **kw):
    d = {"name": name, "props": ["C14", "C12"], "kind": "U", "tier": tier, "src": U, "include": H, "entry": entry,
         "mode": "dfcc", "dfcc": {"enforce": ["%s/%s_spec" % (fn, fn)], "loopspec": loopspec}, "cbmc": DF, "solver": solver,
         "timeout": timeout, "functions": [fn], "what": what, "probe": False, "min_props": 20}
    d.update(kw)
    return d


OBLIGATIONS = [
    u("c14.u.memcmp", "sodium_memcmp", "hu_memcmp",
      {"sodium_memcmp": [{"id": 0, "assigns": "i,d", "dec": "len - i",
                          "inv": "i <= len && (d == 0) == __CPROVER_forall { unsigned long q_l1; (q_l1 < i) ==> b1[q_l1] == b2[q_l1] }"}]},
      "sodium_memcmp returns 0 iff all len bytes are equal, -1 otherwise; every len <= 4096; loop closed by invariant"),
    u("c14.u.is_zero", "sodium_is_zero", "hu_is_zero",
      {"sodium_is_zero": [{"id": 0, "assigns": "i,d", "dec": "nlen - i",
                           "inv": "i <= nlen && (d == 0) == __CPROVER_forall { unsigned long q_l2; (q_l2 < i) ==> n[q_l2] == 0 }"}]},
      "sodium_is_zero returns 1 iff all bytes are zero"),
    u("c14.u.compare", "sodium_compare", "hu_compare",
      {"sodium_compare": [{"id": 0, "assigns": "i,gt,eq,x1,x2", "dec": "i",
                           "inv": "i <= len && eq <= 1 && gt <= 1"
                                  " && (g_case == 0 ==> (eq == 1 && gt == 0))"
                                  " && ((g_case == 1 && i > g_j) ==> (eq == 1 && gt == 0))"
                                  " && ((g_case == 1 && i <= g_j) ==> (eq == 0 && gt == (b1[g_j] > b2[g_j] ? 1 : 0)))"}]},
      "sodium_compare returns the little-endian numeric order: 0 when equal, else decided by the top-most differing byte"),
    u("c14.u.increment", "sodium_increment", "hu_increment",
      {"sodium_increment": [{"id": 0, "assigns": "i,c,__CPROVER_object_upto(n,nlen)", "dec": "nlen - i",
                             "inv": "i <= nlen && c <= 1"
                                    " && __CPROVER_forall { unsigned long q_l3; (i <= q_l3 && q_l3 < nlen) ==> n[q_l3] == g_a0[q_l3] }"
                                    " && (g_case == 0 ==> (c == 1 && (g_k < i ==> n[g_k] == 0)))"
                                    " && (g_case == 1 ==> ((i <= g_j ==> c == 1) && (i > g_j ==> c == 0)"
                                    "   && ((g_k < i && g_k < g_j) ==> n[g_k] == 0)"
                                    "   && ((g_k < i && g_k == g_j) ==> n[g_k] == (unsigned char)(g_a0[g_k] + 1))"
                                    "   && ((g_k < i && g_k > g_j) ==> n[g_k] == g_a0[g_k])))"}]},
      "sodium_increment adds 1 modulo 2^(8 nlen) with full carry propagation (generic loop; asm fast paths not in the verified configuration)"),
    u("c14.u.add", "sodium_add", "hu_add",
      {"sodium_add": [{"id": 0, "assigns": "i,c,__CPROVER_object_upto(a,len)", "dec": "len - i",
                       "inv": "i <= len && c <= 1"
                              " && __CPROVER_forall { unsigned long q_l4; (i <= q_l4 && q_l4 < len) ==> a[q_l4] == g_a0[q_l4] }"
                              " && ((g_case == 0 && i <= g_k) ==> c == 0)"
                              " && ((g_case == 1 && g_j < i && i <= g_k) ==> c == 1)"
                              " && ((g_case == 2 && g_j < i && i <= g_k) ==> c == 0)"
                              " && (i > g_k ==> a[g_k] == (unsigned char)(g_a0[g_k] + b[g_k] + (g_case == 1 ? 1 : 0)))"}]},
      "sodium_add = little-endian addition modulo 2^(8 len) against an independent carry-look-ahead specification", timeout=900, tier="thorough"),
    u("c14.u.sub", "sodium_sub", "hu_sub",
      {"sodium_sub": [{"id": 0, "assigns": "i,c,__CPROVER_object_upto(a,len)", "dec": "len - i",
                       "inv": "i <= len && c <= 1"
                              " && __CPROVER_forall { unsigned long q_l5; (i <= q_l5 && q_l5 < len) ==> a[q_l5] == g_a0[q_l5] }"
                              " && ((g_case == 0 && i <= g_k) ==> c == 0)"
                              " && ((g_case == 1 && g_j < i && i <= g_k) ==> c == 1)"
                              " && ((g_case == 2 && g_j < i && i <= g_k) ==> c == 0)"
                              " && (i > g_k ==> a[g_k] == (unsigned char)(g_a0[g_k] - b[g_k] - (g_case == 1 ? 1 : 0)))"}]},
      "sodium_sub = little-endian subtraction modulo 2^(8 len) against a borrow-look-ahead specification", timeout=900, tier="thorough"),
]


def b(name, entry, fn, what, vmax=16, **kw):
    d = {"name": name, "props": ["C14", "C12"], "kind": "B", "tier": "quick", "src": "harness/utils_b.c", "entry": entry,
         "defs": ["-DVMAX=%d" % vmax], "cbmc": ["--unwind", str(vmax + 2), "--unwinding-assertions", "--object-bits", "12"],
         "timeout": 600, "functions": [fn], "what": what, "bound": "len <= %d, all byte contents" % vmax}
    d.update(kw)
    return d


OBLIGATIONS += [
    b("c14.b.memcmp", "hb_memcmp", "sodium_memcmp", "refuter for c14.u.memcmp (native replay)"),
    b("c14.b.is_zero", "hb_is_zero", "sodium_is_zero", "refuter for c14.u.is_zero"),
    b("c14.b.compare", "hb_compare", "sodium_compare", "sodium_compare against 128-bit integer comparison"),
    b("c14.b.increment", "hb_increment", "sodium_increment", "sodium_increment against 128-bit integer arithmetic"),
    b("c14.b.add", "hb_add", "sodium_add", "sodium_add against 128-bit integer arithmetic"),
    b("c14.b.sub", "hb_sub", "sodium_sub", "sodium_sub against 128-bit integer arithmetic"),
    b("c14.b.memzero", "hb_memzero", "sodium_memzero", "sodium_memzero (explicit_bzero branch: libc model) wipes exactly [off, off+len)"),
]
