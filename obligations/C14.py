"""C14 - constant-time helpers compute exact comparisons and little-endian arithmetic"""
U = "harness/utils_u.c"
H = ["contracts/utils_c14.h"]
DF = ["--unwind", "8", "--object-bits", "12"]


def u(name, fn, entry, loopspec, what, timeout=600, tier="quick", solver="z3", **kw):
    d = {"name": name, "props": ["C14", "C12"], "kind": "U", "tier": tier, "src": U, "include": H, "entry": entry,
         "mode": "dfcc", "dfcc": {"enforce": ["%s/%s_spec" % (fn, fn)], "loopspec": loopspec, "consts": {"V_LEN_MAX": "4096"}}, "cbmc": DF, "solver": solver,
         "timeout": timeout, "functions": [fn], "what": what, "probe": False, "min_props": 20,
         "bound": "values: len <= 4096 (object-size bound; every loop iteration covered by the invariant)"}
    d.update(kw)
    return d


def s_variant(o, n=128, **kw):
    """same contract text, quantifiers bounded by the constant n so that the SAT back end expands them (proves and refutes)"""
    d = dict(o)
    d["name"] = o["name"].replace(".u.", ".s.")
    d["defs"] = list(o.get("defs", [])) + ["-DV_LEN_MAX=%dUL" % n]
    d["dfcc"] = dict(o["dfcc"], consts={"V_LEN_MAX": str(n)})
    d["solver"] = "sat"
    d["tier"] = "quick"
    d["bound"] = "values: len <= %d (constant-bounded quantifiers, SAT back end; every loop iteration covered by the invariant)" % n
    d.update(kw)
    return d


OBLIGATIONS = [
    u("c14.u.memcmp", "sodium_memcmp", "hu_memcmp",
      {"sodium_memcmp": [{"id": 0, "assigns": "i,d", "dec": "len - i",
                          "inv": "i <= len && (d == 0) == __CPROVER_forall { unsigned long q_l1; (q_l1 < V_LEN_MAX) ==> ((q_l1 < i) ==> b1[q_l1] == b2[q_l1]) }"}]},
      "sodium_memcmp returns 0 iff all len bytes are equal, -1 otherwise; every len <= 4096; loop closed by invariant"),
    u("c14.u.is_zero", "sodium_is_zero", "hu_is_zero",
      {"sodium_is_zero": [{"id": 0, "assigns": "i,d", "dec": "nlen - i",
                           "inv": "i <= nlen && (d == 0) == __CPROVER_forall { unsigned long q_l2; (q_l2 < V_LEN_MAX) ==> ((q_l2 < i) ==> n[q_l2] == 0) }"}]},
      "sodium_is_zero returns 1 iff all bytes are zero"),
    u("c14.u.compare", "sodium_compare", "hu_compare",
      {"sodium_compare": [{"id": 0, "assigns": "i,gt,eq,x1,x2", "dec": "i",
                           "inv": "i <= len && eq <= 1 && gt <= 1"
                                  " && (g_case == 0 ==> (eq == 1 && gt == 0))"
                                  " && ((g_case == 1 && i > g_j) ==> (eq == 1 && gt == 0))"
                                  " && ((g_case == 1 && i <= g_j) ==> (eq == 0 && gt == (b1[g_j] > b2[g_j] ? 1 : 0)))"}]},
      "sodium_compare returns the little-endian numeric order: 0 when equal, else decided by the top-most differing byte"),
    u("c14.u.increment", "sodium_increment", "hu_increment",
      {"sodium_increment": [{"id": 0, "assigns": "i,c,__CPROVER_object_upto(n,nlen)", "dec": "nlen - i",
                             "inv": 'i <= nlen && c <= 1 && (i == 0 ==> c == 1) && (i <= g_k ==> n[g_k] == g_old0) && ((g_k + 1 < nlen && i <= g_k + 1) ==> n[g_k + 1] == g_old1) && (i > g_k ==> ((unsigned char)(n[g_k] - g_old0 - 0)) <= 1) && ((i > g_k && g_k == 0) ==> ((unsigned char)(n[g_k] - g_old0 - 0)) == 1) && (i == g_k + 1 ==> c == ((g_old0 + 0 + ((unsigned char)(n[g_k] - g_old0 - 0))) >> 8)) && (i > g_k + 1 ==> n[g_k + 1] == (unsigned char)(g_old1 + 0 + ((g_old0 + 0 + ((unsigned char)(n[g_k] - g_old0 - 0))) >> 8)))'}]},
      "sodium_increment = +1 modulo 2^(8 nlen): schoolbook carry recurrence at every adjacent pair of positions (generic loop; asm fast paths are not in the verified configuration)", solver="kissat"),
    u("c14.u.add", "sodium_add", "hu_add",
      {"sodium_add": [{"id": 0, "assigns": "i,c,__CPROVER_object_upto(a,len)", "dec": "len - i",
                       "inv": 'i <= len && c <= 1 && (i == 0 ==> c == 0) && (i <= g_k ==> a[g_k] == g_old0) && ((g_k + 1 < len && i <= g_k + 1) ==> a[g_k + 1] == g_old1) && (i > g_k ==> ((unsigned char)(a[g_k] - g_old0 - b[g_k])) <= 1) && ((i > g_k && g_k == 0) ==> ((unsigned char)(a[g_k] - g_old0 - b[g_k])) == 0) && (i == g_k + 1 ==> c == ((g_old0 + b[g_k] + ((unsigned char)(a[g_k] - g_old0 - b[g_k]))) >> 8)) && (i > g_k + 1 ==> a[g_k + 1] == (unsigned char)(g_old1 + b[g_k + 1] + ((g_old0 + b[g_k] + ((unsigned char)(a[g_k] - g_old0 - b[g_k]))) >> 8)))'}]},
      "sodium_add = a+b modulo 2^(8 len): schoolbook carry recurrence at every adjacent pair of positions, b untouched", solver="kissat"),
    u("c14.u.sub", "sodium_sub", "hu_sub",
      {"sodium_sub": [{"id": 0, "assigns": "i,c,__CPROVER_object_upto(a,len)", "dec": "len - i",
                       "inv": 'i <= len && c <= 1 && (i == 0 ==> c == 0) && (i <= g_k ==> a[g_k] == g_old0) && ((g_k + 1 < len && i <= g_k + 1) ==> a[g_k + 1] == g_old1) && (i > g_k ==> ((unsigned char)(g_old0 - b[g_k] - a[g_k])) <= 1) && ((i > g_k && g_k == 0) ==> ((unsigned char)(g_old0 - b[g_k] - a[g_k])) == 0) && (i == g_k + 1 ==> c == ((int)g_old0 < (int)b[g_k] + (int)((unsigned char)(g_old0 - b[g_k] - a[g_k])) ? 1 : 0)) && (i > g_k + 1 ==> a[g_k + 1] == (unsigned char)(g_old1 - b[g_k + 1] - ((int)g_old0 < (int)b[g_k] + (int)((unsigned char)(g_old0 - b[g_k] - a[g_k])) ? 1 : 0)))'}]},
      "sodium_sub = a-b modulo 2^(8 len): schoolbook borrow recurrence at every adjacent pair of positions", solver="kissat"),
]


def b(name, entry, fn, what, vmax=16, **kw):
    d = {"name": name, "props": ["C14", "C12"], "kind": "B", "tier": "quick", "src": "harness/utils_b.c", "entry": entry,
         "defs": ["-DVMAX=%d" % vmax], "cbmc": ["--unwind", str(vmax + 2), "--unwinding-assertions", "--object-bits", "12"],
         "timeout": 600, "functions": [fn], "what": what, "bound": "len <= %d, all byte contents" % vmax}
    d.update(kw)
    return d


OBLIGATIONS += [
    b("c14.b.memcmp", "hb_memcmp", "sodium_memcmp", "refuter for c14.u.memcmp (native replay)"),
    b("c14.b.is_zero", "hb_is_zero", "sodium_is_zero", "refuter for c14.u.is_zero"),
    b("c14.b.compare", "hb_compare", "sodium_compare", "sodium_compare against 128-bit integer comparison"),
    b("c14.b.increment", "hb_increment", "sodium_increment", "sodium_increment against 128-bit integer arithmetic"),
    b("c14.b.add", "hb_add", "sodium_add", "sodium_add against 128-bit integer arithmetic"),
    b("c14.b.sub", "hb_sub", "sodium_sub", "sodium_sub against 128-bit integer arithmetic"),
    b("c14.b.memzero", "hb_memzero", "sodium_memzero", "sodium_memzero (explicit_bzero branch: libc model) wipes exactly [off, off+len)"),
]


def f_verify(n, sse2):
    return {"name": "c14.f.verify_%d.%s" % (n, "sse2" if sse2 else "portable"), "props": ["C14", "C02", "C12"], "kind": "F", "tier": "quick",
            "src": "harness/verify_f.c", "entry": "hf_verify_%d" % n, "keep": ["HAVE_EMMINTRIN_H"] if sse2 else [],
            "cbmc": ["--unwind", "66", "--unwinding-assertions"], "timeout": 300,
            "functions": ["crypto_verify_%d" % n, "crypto_verify_n (%s)" % ("SSE2 intrinsics path" if sse2 else "portable path")],
            "what": "crypto_verify_%d == 0 iff all %d bytes equal, -1 otherwise, for all 2^%d inputs" % (n, n, 16 * n),
            "assumes": ["__builtin_ia32_pmovmskb128 modelled in C (harness/verify_f.c)"] if sse2 else []}


OBLIGATIONS += [f_verify(n, s) for n in (16, 32, 64) for s in (False, True)]


OBLIGATIONS += [
    u("c14.u.memzero.bzero", "sodium_memzero", "hu_memzero", None,
      "sodium_memzero (HAVE_EXPLICIT_BZERO branch, the configured one): exactly len bytes zero, frame = pnt[0..len)",
      assumes=["explicit_bzero == memset(.,0,.) (libc, modelled in harness/utils_u.c)"], min_props=5),
    u("c14.u.memzero.memset", "sodium_memzero", "hu_memzero", None,
      "sodium_memzero, memset + weak-symbol barrier branch (build without explicit_bzero)", drop=["HAVE_EXPLICIT_BZERO"], min_props=5),
    u("c14.u.memzero.loop", "sodium_memzero", "hu_memzero",
      {"sodium_memzero": [{"id": 0, "assigns": "i,__CPROVER_object_upto(pnt_,len)", "dec": "len - i",
                           "inv": "i <= len && pnt_ == pnt && __CPROVER_forall { unsigned long q_l6; (q_l6 < V_LEN_MAX) ==> ((q_l6 < i) ==> pnt_[q_l6] == 0) }"}]},
      "sodium_memzero, portable volatile-loop branch (build without explicit_bzero and weak symbols)",
      drop=["HAVE_EXPLICIT_BZERO", "HAVE_WEAK_SYMBOLS"], min_props=5),
    b("c14.b.memzero.memset", "hb_memzero", "sodium_memzero", "memset + barrier branch", drop=["HAVE_EXPLICIT_BZERO"]),
    b("c14.b.memzero.loop", "hb_memzero", "sodium_memzero", "volatile loop branch", drop=["HAVE_EXPLICIT_BZERO", "HAVE_WEAK_SYMBOLS"]),
]
for o in OBLIGATIONS:
    if o["dfcc"]["loopspec"] is None if o.get("mode") == "dfcc" else False:
        del o["dfcc"]["loopspec"]

# C10 (results independent of the build configuration): the portable C loops that a build without assembly uses, both build
# branches of crypto_verify_n (portable / SSE2) and the three build branches of sodium_memzero are each proved equal to the
# SAME specification, hence to each other; the x86-64 adc/sbb fast paths are not covered.
for o in OBLIGATIONS:
    if o["name"] in ("c14.u.increment", "c14.u.add", "c14.u.sub") or o["name"].startswith("c14.f.verify_") or o["name"].startswith("c14.u.memzero."):
        o["props"] = o["props"] + ["C10"]

_byname = {o["name"]: o for o in OBLIGATIONS}
OBLIGATIONS += []
