"""per-property lists copied into every evidence file: what the check does NOT cover, and standing assumptions"""
OBLIGATIONS = []
_SIMD = "SIMD / assembly back ends (dolbeau AVX2/SSSE3 ChaCha20, xmm6 / xmm6int Salsa20, SSE2 Poly1305, SSSE3/SSE4.1/AVX2 BLAKE2b, AES-NI GCM and AEGIS, sandy2x X25519, Argon2 SSSE3/AVX2/AVX-512F, scrypt SSE): intrinsics have no bodies in CBMC and assembly is not modelled"
NOT_COVERED = {
    "C01": ["AES-256-GCM", "AEGIS-128L / AEGIS-256 (soft back end attempted: symbolic execution does not finish)", _SIMD, "equality of the primitives with their specifications is C03/C04 (assumed here)", "secretbox byte copies are bounded to 80-byte messages"],
    "C02": ["AES-256-GCM, AEGIS", "that changing a bit changes the MAC (cryptographic strength of Poly1305 / HMAC)", _SIMD],
    "C03": [_SIMD, "streaming over arbitrary lengths: proved per constant length (1, 63, 64 quick; 33, 65, 128, 129 thorough, the multi-block ones one output block per obligation) and per block from every state; induction over the block count is a paper lemma", "salsa2012 / salsa208 stream wrappers: counter carry beyond the first byte (they have no initial-counter form, so it is out of reach of constant-length obligations)"],
    "C04": ["Poly1305 product h*r mod 2^130-5 (non-linear)", "SHA-256 / SHA-512 / BLAKE2b compression functions and their update/final buffering", _SIMD, "donna32 variant"],
    "C05": ["the Montgomery ladder's non-linear field arithmetic (fe25519_mul, sq, invert, mul32: the SAT back end does not finish; add / sub / neg / cswap / cmov / encode / decode ARE decided), ge25519_scalarmult_base, the RFC 7748 value itself", "sandy2x AVX assembly and its C glue", "25.5-bit limb field representation"],
    "C06": ["Edwards25519 group arithmetic, SHA-512, and scalar arithmetic mod L for general operands (decided only: sc25519_muladd with a in {0,1}, sc25519_reduce for s < 2^256): RFC 8032 test-vector equality and 'every produced signature verifies' are not decided", "pk_to_curve25519: field inversion and product values (operands and checks are decided)", "sign / sign_open overlap is bounded: messages <= 80 bytes, 8 relative offsets each"],
    "C07": ["group / scalar arithmetic exactness (ge25519_*, sc25519_mul / invert, sc25519_reduce for s >= 2^256, sc25519_muladd for a > 1, fe25519_mul / sq, Elligator, Ristretto encode/decode)", "byte equality of expand_message_xmd's output with b_1 || b_2 ..", "from_string / from_string_ro wrappers"],
    "C08": ["equality of Argon2i / Argon2id / scrypt outputs with RFC 9106 / RFC 7914 on any back end", "argon2_encode_string", "raw API upper output bound (needs a 4 GiB buffer)"],
    "C09": ["the induction over arbitrary interleavings of pushes and pulls (paper lemma over the per-call contracts)"],
    "C10": ["byte-identical outputs across SIMD / assembly / 25.5-bit-limb implementations (the central clause)", _SIMD],
    "C11": ["memory-address independence", "the compiled binary (only the goto program is analysed)", "?: / && / || expressions", "whole scalar multiplications, signing, AES-NI, sandy2x, SIMD back ends"],
    "C12": ["public functions not listed under functions_under_contract", _SIMD, "alignment faults (not modelled by CBMC)"],
    "C13": ["box easy/detached (forward to secretbox)", "AEGIS, AES-GCM", "vectorised stream cores (stride-wise in-place safety)", "secretbox / sign / sign_open overlap is bounded: lengths <= 80, 13 resp. 8 relative offsets"],
    "C14": ["x86-64 adc/sbb assembly fast paths of sodium_increment/add (len 8, 12, 24) and sodium_sub (len 64)", "explicit_bzero / pmovmskb128 are assumed models"],
    "C15": ["decoder completeness (which texts are ACCEPTED) and the ignore-set / padded modes beyond 8-character texts: bounded only (decoder soundness in strict mode, decoder memory safety / frame / capacity and both encoders are unbounded)"],
    "C16": ["sodium_pad for block sizes > 130 that are not powers of two (bounded only)", "unpad completeness for block sizes > 136 (quick) / 256 (thorough)"],
    "C17": ["operating-system page-protection semantics (assumed)", "allocarray overflow for count > 64 and size > 64 (elementary lemma)"],
    "C18": ["randombytes_internal / sysrandom sources themselves", "statistical uniformity (only the exact rejection rule is decided)", "randombytes_uniform for bounds other than n <= 31 and the nine listed constants"],
    "C20": ["compute kernels (frame-only stubs)", "scrypt SSE variant, escrypt_r wrapper"],
}
STANDING = {p: ["CBMC treats volatile objects as ordinary memory (single-threaded reading)", "libc functions behave as CBMC's built-in models (memcpy/memmove/memset/strlen/strncmp) or as the stated stubs"] for p in NOT_COVERED}
