"""C04 - hashes, MACs, KDFs (also C02 for verify functions)"""


def ob(name, src, entry, fns, what, kind="F", props=("C04", "C12"), **kw):
    o = {"name": name, "props": list(props), "kind": kind, "tier": "quick", "src": src, "entry": entry,
         "cbmc": ["--unwind", "210", "--unwinding-assertions", "--object-bits", "18"], "solver": "kissat", "timeout": 900, "functions": fns, "what": what, "bound": "none"}
    o.update(kw)
    return o


HASSUME = ["SHA-256 / SHA-512 init/update/final replaced by logging stubs returning arbitrary-but-known digests (their equality with FIPS 180-4 is not decided here)"]
OBLIGATIONS = []
for hb in (256, 512):
    n = "hmacsha%d" % hb
    OBLIGATIONS += [
        ob("c04.f.%s.init" % n, "harness/hmac.c", "hf_init", ["crypto_auth_%s_init" % n], "RFC 2104 key handling for every key length 0..200: longer than a block => hashed first; ipad/opad blocks exact", defs=["-DHB=%d" % hb], assumes=HASSUME,
           bound="values: key length <= 200 bytes (covers block size 64/128 +- and beyond)"),
        ob("c04.f.%s.update_final" % n, "harness/hmac.c", "hf_update_final", ["crypto_auth_%s_update" % n, "crypto_auth_%s_final" % n], "update feeds the inner hash; final = H(opad block || inner digest)", defs=["-DHB=%d" % hb], assumes=HASSUME),
        ob("c04.f.%s.oneshot_verify" % n, "harness/hmac.c", "hf_oneshot_verify", ["crypto_auth_%s" % n, "crypto_auth_%s_verify" % n], "one-shot = init/update/final with the 32-byte key; verify accepts exactly the correct tag",
           defs=["-DHB=%d" % hb], assumes=HASSUME, props=("C04", "C02", "C12")),
    ]
OBLIGATIONS.append(ob("c04.f.hmacsha512256", "harness/hmac.c", "hf_512256", ["crypto_auth_hmacsha512256_init", "crypto_auth_hmacsha512256", "crypto_auth_hmacsha512256_final", "crypto_auth_hmacsha512256_verify"],
                      "HMAC-SHA-512-256 = HMAC-SHA-512 truncated to 32 bytes; verify accepts exactly the correct tag", defs=["-DHB=512"], assumes=HASSUME, props=("C04", "C02", "C12")))

OBLIGATIONS.append(ob("c04.f.generic_api", "harness/generic_c04.c", "hf_generic_c04", ["crypto_auth", "crypto_auth_verify", "crypto_shorthash", "crypto_hash", "crypto_kdf_derive_from_key", "crypto_auth_keygen", "crypto_shorthash_keygen", "crypto_kdf_keygen", "size accessors"],
    "the generic crypto_auth / crypto_shorthash / crypto_hash / crypto_kdf entry points call HMAC-SHA-512-256 / SipHash-2-4 / SHA-512 / the BLAKE2b KDF exactly once with the caller's arguments unchanged (every length, all 64 bits of the subkey id) and return the primitive's verdict",
    props=("C04",), replayable=True, assumes=["the primitives are logging stubs with an arbitrary verdict here (their own obligations: c04.f.hmacsha512256, c04.f.siphash*, c04.f.kdf_blake2b)"], cbmc=["--unwind", "10", "--unwinding-assertions"]))

PA = ["the product h*r mod 2^130-5 inside poly1305_blocks is not decided (non-linear arithmetic does not discharge on any installed back end): assumed correct"]
OBLIGATIONS += [
    ob("c04.f.poly1305.finish", "harness/poly1305.c", "hf_finish", ["poly1305_finish (donna64)"],
       "final reduction + pad: tag = ((h mod 2^130-5) + s) mod 2^128 for every accumulator with h0,h1 < 2^45, h2 < 2^43 (superset of what the block function leaves; includes h >= p and pending carries) and every s",
       cbmc=["--unwind", "20", "--unwinding-assertions"], assumes=PA, bound="values: limb bounds h0,h1 < 2^45, h2 < 2^43"),
    ob("c04.f.poly1305.init", "harness/poly1305.c", "hf_init", ["poly1305_init (donna64)"], "key clamp and limb split, s, zero accumulator", cbmc=["--unwind", "36", "--unwinding-assertions"]),
    ob("c04.b.poly1305.update", "harness/poly1305.c", "hb_update", ["poly1305_update"], "buffering is independent of the chunking: any 3 chunks (incl. empty) of a message <= 48 bytes give the same block sequence and buffered tail",
       kind="B", gi_pre=["--replace-calls", "poly1305_blocks:v_blocks_stub"], replayable=False, cbmc=["--unwind", "52", "--unwinding-assertions"], bound="total length <= 34 bytes in 2 chunks (quick) / <= 48 bytes in 3 chunks (thorough)", assumes=PA,
       defs=["-DVTOT=34", "-DVTWO=1"], thorough={"defs": ["-DVTOT=48"], "timeout": 2400}),
    ob("c04.f.poly1305.pad", "harness/poly1305.c", "hf_pad", ["poly1305_finish (donna64)"], "partial final block: 0x01 then zeros, final flag set",
       gi_pre=["--replace-calls", "poly1305_blocks:v_blocks_stub"], replayable=False, cbmc=["--unwind", "20", "--unwinding-assertions"]),
    ob("c04.f.poly1305.verify", "harness/poly1305.c", "hf_verify", ["crypto_onetimeauth_poly1305_donna_verify"], "verify == 0 iff all 16 tag bytes equal the computed tag",
       props=("C04", "C02", "C12"), cbmc=["--unwind", "20", "--unwinding-assertions"]),
]

MA = ["crypto_auth_hmacsha256/512 init/update/final replaced by logging stubs returning arbitrary-but-known tags (their own conformance: c04.f.hmacsha*)"]
for hb in (256, 512):
    OBLIGATIONS += [
        ob("c04.f.hkdf_sha%d.extract" % hb, "harness/hkdf.c", "hf_extract", ["crypto_kdf_hkdf_sha%d_extract" % hb], "extract = HMAC(salt, ikm) for every salt / ikm length", defs=["-DHB=%d" % hb], assumes=MA, cbmc=["--unwind", "70", "--unwinding-assertions", "--object-bits", "14"]),
    ] + [
        ob("c04.f.hkdf_sha%d.expand.len_%d" % (hb, ol), "harness/hkdf.c", "hb_expand", ["crypto_kdf_hkdf_sha%d_expand" % hb],
           "expand for out_len = %d: RFC 5869 block chaining T(i) = HMAC(PRK, T(i-1) || info || i), counter byte, truncation of the last block, every info length" % ol,
           defs=["-DHB=%d" % hb, "-DOLEN=%d" % ol], assumes=MA, cbmc=["--unwind", "70", "--unwinding-assertions", "--object-bits", "14"], tier=t,
           bound="none on inputs (constant output length %d; info <= 4096 bytes)" % ol)
        for ol, t in ((0, "quick"), (1, "quick"), (hb // 8, "quick"), (hb // 8 + 1, "quick"), (2 * (hb // 8), "quick"), (2 * (hb // 8) + 5, "quick"), (3 * (hb // 8), "thorough"))
    ] + [
        ob("c04.f.hkdf_sha%d.expand_toolong" % hb, "harness/hkdf.c", "hf_expand_toolong", ["crypto_kdf_hkdf_sha%d_expand" % hb], "out_len > 255*HashLen => -1/EINVAL, nothing computed", defs=["-DHB=%d" % hb], cbmc=["--unwind", "70", "--unwinding-assertions"]),
    ]

OBLIGATIONS += [
    ob("c04.f.generichash.params", "harness/blake2_wrap.c", "hf_generichash_params", ["crypto_generichash_blake2b", "crypto_generichash_blake2b_salt_personal", "crypto_generichash_blake2b_init", "crypto_generichash_blake2b_init_salt_personal"],
       "out-of-range output / key lengths are refused with -1 before the core runs; in-range calls are forwarded unchanged; NULL or empty key => unkeyed", cbmc=["--unwind", "40", "--unwinding-assertions"],
       assumes=["BLAKE2b core API replaced by logging stubs (its equality with RFC 7693 is not decided here)"]),
    ob("c04.f.kdf_blake2b", "harness/blake2_wrap.c", "hf_kdf", ["crypto_kdf_blake2b_derive_from_key"], "subkey = BLAKE2b(key, salt = le64(id)||0^8, personal = ctx||0^8, empty message), length 16..64 enforced with EINVAL",
       cbmc=["--unwind", "40", "--unwinding-assertions"], assumes=["BLAKE2b core API replaced by logging stubs"]),
]

for x in (0, 1):
    for nb, t in ((0, "quick"), (1, "quick"), (7, "quick"), (8, "quick"), (9, "thorough"), (15, "quick"), (16, "thorough"), (17, "thorough")):
        OBLIGATIONS.append(ob("c04.f.siphash%s24.len_%d" % ("x" if x else "", nb), "harness/siphash.c", "hf_siphash", ["crypto_shorthash_siphash%s24" % ("x" if x else "")],
                              "SipHash%s-2-4 over %d bytes equals the paper's definition for every key and message" % ("x" if x else "", nb), defs=["-DSIPX=%d" % x, "-DNB=%d" % nb], tier=t,
                              cbmc=["--unwind", "20", "--unwinding-assertions"], timeout=900, bound="none (constant length %d)" % nb))
