"""C11 - constant-time: branch half only, source (goto program) level, by self-composition on branch traces"""
NOTE = ["memory-address independence (secret-indexed table look-ups) is NOT decided: CBMC offers no address hook or taint domain for it",
        "the check is at the goto-program level of the verified (no-asm, no-SIMD unless stated) configuration: what the compiler emits (e.g. turning a select into a jump) is NOT decided",
        "conditional expressions without side effects (?:, &&, ||) stay expressions in the goto program and are not branches there"]


def ob(name, entry, part, fns, what, kind="F", **kw):
    o = {"name": name, "props": ["C11"], "kind": kind, "tier": "quick", "src": "harness/ct.c", "entry": entry, "defs": ["-DPART=%d" % part], "replayable": False, "no_safety": True,
         "gi_pre": ["--branch", "v_hook"], "cbmc": ["--unwind", "70", "--unwinding-assertions", "--unwindset", "v_same_trace.0:260"], "solver": "kissat", "timeout": 1200,
         "functions": fns, "what": what, "bound": "none", "assumes": NOTE}
    o.update(kw)
    return o


OBLIGATIONS = [
    ob("c11.f.verify", "hf_ct_verify", 0, ["crypto_verify_16", "crypto_verify_32", "crypto_verify_64"], "verifiers: branch trace independent of both inputs (portable path)"),
    ob("c11.f.verify.sse2", "hf_ct_verify", 0, ["crypto_verify_16", "crypto_verify_32", "crypto_verify_64"], "verifiers, SSE2 path", keep=["HAVE_EMMINTRIN_H"]),
    ob("c11.b.utils", "hb_ct_utils", 0, ["sodium_memcmp", "sodium_compare", "sodium_is_zero", "sodium_add", "sodium_sub", "sodium_increment"], "comparison / arithmetic helpers: trace depends on the (public) length only", kind="B", bound="length <= 16"),
    ob("c11.b.pad", "hb_ct_pad", 0, ["sodium_pad", "sodium_unpad"], "padding: trace independent of buffer content and of the position of the padding marker", kind="B", bound="block size <= 16, padded length <= 32"),
    ob("c11.b.codecs", "hb_ct_codecs", 1, ["sodium_bin2hex", "sodium_bin2base64"], "hex / Base64 encoding: trace independent of the encoded bytes", kind="B", bound="length <= 6, 4 variants"),
    ob("c11.f.field", "hf_ct_field", 2, ["fe25519_cswap", "fe25519_cmov", "fe25519_cneg", "fe25519_abs", "fe25519_isnegative", "fe25519_iszero", "fe25519_tobytes", "sc25519_is_canonical", "has_small_order"],
       "field-element selection / sign helpers (used by X25519, Ed25519, Ristretto255), canonical-scalar test, low-order blocklist: no branch depends on the operands",
       defs=["-DPART=2", "-DTMAX=512"], cbmc=["--unwind", "70", "--unwinding-assertions", "--unwindset", "v_same_trace.0:520"]),
    ob("c11.f.prims.len_64", "hf_ct_prims", 3, ["chacha20_encrypt_bytes (ref)", "crypto_onetimeauth_poly1305_donna", "crypto_shorthash_siphash24"], "ChaCha20 ref core, Poly1305 donna, SipHash-2-4 at 64/40/20 bytes: branch trace independent of key, state and message",
       defs=["-DPART=3", "-DNB=64"]),
    ob("c11.f.prims.len_37", "hf_ct_prims", 3, ["chacha20_encrypt_bytes (ref)", "crypto_onetimeauth_poly1305_donna", "crypto_shorthash_siphash24"], "same at 37/37/20 bytes (partial blocks)", defs=["-DPART=3", "-DNB=37"], tier="thorough"),
]

LEVEL_OVERRIDE = {"C11": "other"}
