"""C08 - password hashing API (limits, string API semantics, H' structure); Argon2/scrypt output equality NOT decided"""
A = ["Argon2 core (argon2i/id_hash_raw, _hash_encoded, _verify), argon2_decode_string and BLAKE2b are assumed callees (logging stubs) in these obligations: equality of the raw outputs with RFC 9106 / RFC 7914 is NOT decided"]


def ob(name, src, entry, fns, what, props=("C08", "C12"), **kw):
    o = {"name": name, "props": list(props), "kind": "F", "tier": "quick", "src": src, "entry": entry,
         "cbmc": ["--unwind", "140", "--unwinding-assertions", "--object-bits", "12"], "solver": "kissat", "timeout": 900, "functions": fns, "what": what, "bound": "none", "assumes": A}
    o.update(kw)
    return o


OBLIGATIONS = []
for vari, nm in ((0, "argon2id"), (1, "argon2i")):
    OBLIGATIONS += [
        ob("c08.f.%s.raw" % nm, "harness/pwhash_wrap.c", "hf_raw", ["crypto_pwhash_%s" % nm], "raw API: every out-of-range parameter refused with -1 / errno without invoking the core; in-range request forwarded with (t, m/1024, 1 lane, 16-byte salt); a core error (e.g. allocation failure) is reported as -1", defs=["-DVARI=%d" % vari], props=("C08", "C20", "C12"),
           bound="values: outlen <= 128 (the upper output bound 2^32-1 needs a 4 GiB buffer and is not exercised)"),
        ob("c08.f.%s.str" % nm, "harness/pwhash_wrap.c", "hf_str", ["crypto_pwhash_%s_str" % nm], "string API: limits; 16 random salt bytes; 32-byte tag; 128-byte output; core error => -1", defs=["-DVARI=%d" % vari], props=("C08", "C18", "C20", "C12")),
        ob("c08.f.%s.str_verify" % nm, "harness/pwhash_wrap.c", "hf_str_verify", ["crypto_pwhash_%s_str_verify" % nm], "str_verify returns 0 exactly when the core reports a match (any core error, e.g. allocation failure => -1)", defs=["-DVARI=%d" % vari], props=("C08", "C20", "C12")),
    ]
OBLIGATIONS += [
    ob("c08.f.needs_rehash", "harness/pwhash_wrap.c", "hf_needs_rehash", ["crypto_pwhash_argon2i_str_needs_rehash", "crypto_pwhash_argon2id_str_needs_rehash", "_needs_rehash"],
       "needs_rehash: 0 iff decoded parameters equal the request, 1 if they differ, -1 for malformed / over-long strings or unencodable limits", defs=["-DVARI=1"], bound="values: string length <= 130",
       cbmc=["--unwind", "140", "--unwinding-assertions", "--object-bits", "12", "--no-malloc-may-fail"]),
] + [
    ob("c08.f.blake2b_long.len_%d" % ol, "harness/blake2b_long.c", "hf_blake2b_long", ["blake2b_long"], "H' (RFC 9106 3.3) for T = %d: single hash for T <= 64, otherwise the V1..V(r+1) chain with 32-byte halves" % ol,
       defs=["-DOUTL=%d" % ol], tier=t, bound="none (constant T = %d; input length <= 4096)" % ol)
    for ol, t in ((32, "quick"), (64, "quick"), (65, "quick"), (96, "thorough"), (128, "quick"), (1024, "thorough"))
]

for fl, wh, t in ((10, 0, "quick"), (10, 1, "thorough"), (10, 2, "thorough"), (11, 0, "thorough"), (1, 0, "quick"), (2, 0, "quick"), (0, 0, "quick")):
    OBLIGATIONS.append(ob("c08.f.decode_field.%s.len_%d" % ("mtp"[wh], fl), "harness/argon2_decode.c", "hb_decode_field", ["argon2_decode_string", "decode_decimal"],
        "%s= field of a hash string, %d arbitrary characters: accepted exactly for a minimal decimal below 2^32, value decoded exactly (never reduced modulo 2^32)" % ("mtp"[wh], fl),
        defs=["-DFLEN=%d" % fl, "-DWHICH=%d" % wh], tier=t, timeout=1500, bound="none on the field content (constant field length %d, full character set); rest of the string is a fixed valid template" % fl,
        cbmc=["--unwind", "100", "--unwinding-assertions", "--object-bits", "10"], assumes=["sodium_base642bin and argon2_validate_inputs are accepting stubs here"]))

SCA = ["crypto_pwhash_argon2*(API), crypto_pwhash_scryptsalsa208sha256_ll, escrypt_r / gensalt_r / parse_setting are assumed callees (logging stubs)"]
OBLIGATIONS += [
    ob("c08.f.dispatch", "harness/pwhash_misc.c", "hf_dispatch", ["crypto_pwhash", "crypto_pwhash_str_verify", "crypto_pwhash_str_needs_rehash"], "generic API: dispatch on algorithm id / string prefix; anything else => -1 / EINVAL without hashing (all 11-character prefixes)",
       defs=["-DPART=0"], assumes=SCA, cbmc=["--unwind", "20", "--unwinding-assertions"]),
    ob("c08.f.scrypt.params", "harness/pwhash_misc.c", "hf_scrypt_params", ["pickparams"], "scrypt parameter picking for every (opslimit, memlimit): N_log2 in 1..63, r = 8, r*p < 2^30", defs=["-DPART=1"], assumes=SCA, cbmc=["--unwind", "66", "--unwinding-assertions"]),
    ob("c08.f.scrypt.raw", "harness/pwhash_misc.c", "hf_scrypt_raw", ["crypto_pwhash_scryptsalsa208sha256"], "scrypt raw API: limits refused before the KDF runs; in-range request forwarded with the picked parameters and a 32-byte salt",
       defs=["-DPART=1"], assumes=SCA, cbmc=["--unwind", "130", "--unwinding-assertions", "--object-bits", "12"], bound="values: outlen <= 128"),
    ob("c08.f.scrypt.str_verify", "harness/pwhash_misc.c", "hf_scrypt_str_verify", ["crypto_pwhash_scryptsalsa208sha256_str_verify", "sodium_strnlen"], "scrypt str_verify: wrong length rejected without hashing; 0 iff the recomputed string equals the given one",
       defs=["-DPART=1"], assumes=SCA, cbmc=["--unwind", "114", "--unwinding-assertions"], bound="values: string length <= 110"),
    ob("c08.f.scrypt.needs_rehash", "harness/pwhash_misc.c", "hf_scrypt_needs_rehash", ["crypto_pwhash_scryptsalsa208sha256_str_needs_rehash"], "scrypt needs_rehash: -1 malformed, 1 different parameters, 0 equal",
       defs=["-DPART=1"], assumes=SCA, cbmc=["--unwind", "114", "--unwinding-assertions"], bound="values: string length <= 110"),
]

SCC = ["escrypt_kdf_nosse / escrypt_kdf_sse are an assumed callee (arbitrary 32-byte hash or failure); strchr / strrchr / strlen are CBMC's models"]
OBLIGATIONS += [
    ob("c08.f.scrypt.codec.gensalt_parse", "harness/scrypt_codec.c", "hf_gensalt_parse", ["escrypt_gensalt_r", "escrypt_parse_setting", "encode64", "encode64_uint32", "decode64_uint32", "decode64_one"],
       "\"$7$\" settings: for every N_log2 <= 63, r*p < 2^30 and 32 salt bytes the setting has the documented layout, exact size 58, alphabet characters only, and parse_setting returns the same parameters", assumes=SCC, cbmc=["--unwind", "70", "--unwinding-assertions"]),
    ob("c08.f.scrypt.codec.parse", "harness/scrypt_codec.c", "hf_parse", ["escrypt_parse_setting", "decode64_uint32", "decode64_one"],
       "parse_setting on arbitrary NUL-free 16-byte prefixes: accepted exactly for \"$7$\" + 11 alphabet characters, values decoded exactly", assumes=SCC, cbmc=["--unwind", "70", "--unwinding-assertions"]),
    ob("c08.f.scrypt.codec.escrypt_r", "harness/scrypt_codec.c", "hf_escrypt_r", ["escrypt_r", "encode64", "escrypt_parse_setting"],
       "escrypt_r string assembly: buffer-size guard before hashing, KDF parameters taken from the setting (N = 2^N_log2), output = setting || '$' || 43-character hash || NUL, failure of the KDF propagated, output randomised first; every salt length <= 43", assumes=SCC, cbmc=["--unwind", "110", "--unwinding-assertions"], bound="values: salt <= 43 characters, buffer <= 102 bytes (the sizes of the public API)"),
]

