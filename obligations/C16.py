"""C16 - padding"""
U = "harness/utils_u.c"
DF = ["--unwind", "8", "--object-bits", "12"]
PAD_LOOP = {"sodium_pad": [{"id": 0, "assigns": "i,barrier_mask,mask,__CPROVER_object_upto(buf,max_buflen)", "dec": "blocksize - i",
    "inv": "i <= blocksize && (mask == 0 || mask == 0xff) && ((i > xpadlen) == (mask == 0xff))"
           " && ((g_k > xpadded_len || g_k + i <= xpadded_len) ==> buf[g_k] == g_old)"
           " && ((g_k <= xpadded_len && g_k + i > xpadded_len && xpadded_len - g_k < xpadlen) ==> buf[g_k] == 0)"
           " && ((g_k <= xpadded_len && g_k + i > xpadded_len && xpadded_len - g_k == xpadlen) ==> buf[g_k] == 0x80)"
           " && ((g_k <= xpadded_len && g_k + i > xpadded_len && xpadded_len - g_k > xpadlen) ==> buf[g_k] == g_old)"}]}
UNPAD_LOOP = {"sodium_unpad": [{"id": 0, "assigns": "i,c,is_barrier,acc,pad_len,valid", "dec": "blocksize - i",
    "inv": "i <= blocksize && valid <= 1"
           " && (g_case == 0 ==> (acc == 0 && pad_len == 0 && valid == 0))"
           " && ((g_case == 1 && i + g_j <= padded_buflen - 1) ==> (acc == 0 && pad_len == 0 && valid == 0))"
           " && ((g_case == 1 && i + g_j > padded_buflen - 1) ==> (acc != 0 && (buf[g_j] == 0x80 ? (pad_len == padded_buflen - 1 - g_j && valid == 1) : (pad_len == 0 && valid == 0))))"}]}

UNPAD_SOUND_LOOP = {"sodium_unpad": [{"id": 0, "assigns": "i,c,is_barrier,acc,pad_len,valid", "dec": "blocksize - i",
    "inv": "i <= blocksize && valid <= 1 && pad_len < blocksize && (pad_len < i || pad_len == 0)"
           " && ((acc == 0 && g_k + i >= padded_buflen && g_k < padded_buflen) ==> buf[g_k] == 0)"
           " && (acc == 0 ==> (valid == 0 && pad_len == 0))"
           " && (valid == 1 ==> (buf[padded_buflen - 1 - pad_len] == 0x80 && ((g_k + pad_len > padded_buflen - 1 && g_k < padded_buflen) ==> buf[g_k] == 0)))"}]}


def u(name, fn, entry, loopspec, what, **kw):
    d = {"name": name, "props": ["C16", "C12"], "kind": "U", "tier": "quick", "src": U, "include": ["contracts/utils_c14.h", "contracts/utils_c16.h"], "entry": entry,
         "mode": "dfcc", "dfcc": {"enforce": ["%s/%s_spec" % (fn, fn)], "loopspec": loopspec}, "cbmc": DF, "solver": "kissat",
         "timeout": 600, "functions": [fn], "what": what, "probe": False, "min_props": 50}
    d.update(kw)
    return d


OBLIGATIONS = [
    u("c16.u.pad.pow2", "sodium_pad", "hu_pad", PAD_LOOP,
      "sodium_pad, every power-of-two block size <= 16384, every length <= 16384, every capacity <= 32768, every content: marker, zero fill, data untouched, nothing beyond written, -1 and untouched when it does not fit",
      bound="values: blocksize power of two <= 16384, len <= 16384, capacity <= 32768 (object-size bound, all loop iterations covered by the invariant)"),
    u("c16.u.pad.le130", "sodium_pad", "hu_pad", PAD_LOOP,
      "sodium_pad, every block size 1..130 (power of two or not; the % path), every length <= 16384",
      defs=["-DV_PAD_BLOCK_OK(b)=((b)<=130UL)"], timeout=900,
      bound="values: blocksize <= 130, len <= 16384, capacity <= 32768"),
    u("c16.u.unpad.complete", "sodium_unpad", "hu_unpad", UNPAD_LOOP,
      "sodium_unpad completeness: a final block with a last non-zero byte 0x80 is accepted with the marker index; all-zero block or other last non-zero byte is rejected; every blocksize <= 136 (quick) / 256 (thorough), every buffer <= 32768",
      bound="values: blocksize <= 136 quick / 256 thorough (constant-bounded quantifier in the precondition), padded_buflen <= 32768",
      defs=["-DV_UNPAD_Q=136UL"], thorough={"defs": ["-DV_UNPAD_Q=256UL"], "timeout": 1500}),
    u("c16.u.unpad.sound", "sodium_unpad", "hu_unpad", UNPAD_SOUND_LOOP,
      "sodium_unpad soundness: return 0 implies *unpadded points at 0x80 within the final block and all later bytes are 0; reads confined to the final block; every blocksize and buffer <= 32768",
      dfcc={"enforce": ["sodium_unpad/sodium_unpad_sound_spec"], "loopspec": UNPAD_SOUND_LOOP}),
]


def b(name, entry, fns, what, kind="B", **kw):
    d = {"name": name, "props": ["C16", "C12"], "kind": kind, "tier": "quick", "src": "harness/pad_b.c", "entry": entry,
         "cbmc": ["--unwind", "20", "--unwinding-assertions", "--object-bits", "12"], "solver": "kissat",
         "timeout": 900, "functions": fns, "what": what, "bound": "blocksize <= 8, len <= 9, capacity <= 18, all byte contents"}
    d.update(kw)
    return d


OBLIGATIONS += [
    b("c16.b.pad", "hb_pad", ["sodium_pad"], "sodium_pad against the property's definition incl. capacity smaller than the data, untouched on failure (refuter with native replay)"),
    b("c16.b.pad_nullp", "hb_pad_nullp", ["sodium_pad"], "padded_buflen_p == NULL"),
    b("c16.b.unpad", "hb_unpad", ["sodium_unpad"], "sodium_unpad against a reference scan; called on the whole buffer and on an object holding only the final block"),
    b("c16.b.roundtrip", "hb_roundtrip", ["sodium_pad", "sodium_unpad"], "unpad(pad(x)) == |x| (machine-checked instance of the lemma over the two contracts)"),
    b("c16.f.pad_overflow", "hf_pad_overflow", ["sodium_pad"], "len + padding overflowing size_t reaches the misuse handler before any write (loop free: all 2^192 argument values)",
      kind="F", cbmc=["--unwind", "20", "--unwinding-assertions", "--object-bits", "12"], bound="none for len and capacity; blocksize any power of two or <= 130"),
]
