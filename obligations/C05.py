"""C05 - X25519 and key agreement (partial: predicates, encodings, failure reporting, derivations)"""
A = ["field multiplication / squaring / inversion, the Montgomery ladder as a whole, ge25519_scalarmult_base and the sandy2x assembly are NOT decided: that X25519 returns the RFC 7748 value is assumed",
     "crypto_scalarmult*, BLAKE2b (crypto_generichash*), HSalsa20, SHA-512, randombytes_buf are logging stubs in the API obligations"]


def ob(name, src, entry, fns, what, props=("C05", "C12"), **kw):
    o = {"name": name, "props": list(props), "kind": "F", "tier": "quick", "src": src, "entry": entry,
         "cbmc": ["--unwind", "70", "--unwinding-assertions"], "solver": "kissat", "timeout": 900, "functions": fns, "what": what, "bound": "none", "assumes": A}
    o.update(kw)
    return o


OBLIGATIONS = [
    ob("c05.f.small_order", "harness/x25519.c", "hf_small_order", ["has_small_order (x25519_ref10.c)"], "the low-order blocklist accepts exactly the seven encodings (top bit ignored) for all 2^256 inputs"),
    ob("c05.f.fe_codec", "harness/x25519.c", "hf_fe_codec", ["fe25519_frombytes (fe_51)", "fe25519_tobytes (fe_51)", "fe25519_reduce (fe_51)"],
       "field element decode ignores bit 255 and encode returns the canonical value mod 2^255-19 for every limb vector below 2^54 (incl. values >= p): top bit ignored, non-canonical coordinates reduced",
       replayable=False, bound="values: limbs < 2^54 for the encoder"),
    ob("c05.f.fe_linear", "harness/x25519.c", "hf_fe_linear", ["fe25519_add (fe_51)", "fe25519_cswap (fe_51)", "fe25519_cmov (fe_51)", "fe25519_isnegative", "fe25519_iszero", "fe25519_0/1/copy"],
       "field operations against integers mod 2^255-19 for every pair of limb vectors below 2^54: add exact, cswap / cmov select exactly, isnegative / iszero on the canonical value",
       props=("C05", "C07", "C12"), replayable=False, bound="values: limbs < 2^54", cbmc=["--unwind", "42", "--unwinding-assertions"]),
    ob("c05.f.fe_sub", "harness/x25519.c", "hf_fe_sub", ["fe25519_sub (fe_51)", "fe25519_neg (fe_51)"],
       "fe25519_sub / fe25519_neg against integers mod 2^255-19 for every pair of limb vectors below 2^54: value congruent to f - g (exactly F - G + k*p, 2 <= k <= 20), no limb underflow, limbs below 2^55 (mul / sq / mul32: NOT decided, the SAT back end does not finish)",
       props=("C05", "C07", "C12"), replayable=False, bound="values: limbs < 2^54", timeout=1500, cbmc=["--unwind", "42", "--unwinding-assertions"]),
    ob("c05.f.dispatch", "harness/x25519_api.c", "hf_dispatch", ["crypto_scalarmult_curve25519"], "the back end receives the caller's scalar and point unmodified (distinct buffers, output over the point, output over the scalar); failure reported exactly when the back end fails or the shared point is all-zero", defs=["-DPART=0"]),
    ob("c05.f.dispatch_base", "harness/x25519_api.c", "hf_dispatch_base", ["crypto_scalarmult_curve25519_base"], "base-point multiplication forwards the caller's scalar (also in place) and returns the back end's result", defs=["-DPART=0"]),
    ob("c05.f.kx_session", "harness/x25519_api.c", "hf_kx_session", ["crypto_kx_client_session_keys", "crypto_kx_server_session_keys"],
       "session keys = BLAKE2b-512(q || client_pk || server_pk) split rx/tx on the client and tx/rx on the server (cross-equal), -1 and nothing derived when X25519 fails", defs=["-DPART=1"]),
    ob("c05.f.kx_keypair", "harness/x25519_api.c", "hf_kx_keypair", ["crypto_kx_seed_keypair", "crypto_kx_keypair"], "seeded key pair = (BLAKE2b-256(seed), base multiple); random key pair draws 32 bytes", props=("C05", "C18"), defs=["-DPART=1"]),
    ob("c05.f.box_beforenm", "harness/x25519_api.c", "hf_box_beforenm", ["crypto_box_curve25519xsalsa20poly1305_beforenm"], "box precomputation = HSalsa20(X25519(sk, pk), 0^16); fails when X25519 fails", defs=["-DPART=2"]),
    ob("c05.f.box_keypair", "harness/x25519_api.c", "hf_box_keypair", ["crypto_box_curve25519xsalsa20poly1305_seed_keypair", "crypto_box_curve25519xsalsa20poly1305_keypair"],
       "seeded box key pair = (SHA-512(seed)[0..32), base multiple); random key pair draws 32 bytes", props=("C05", "C18"), defs=["-DPART=2"]),
]

RC = sum([["--replace-calls", a + ":" + b] for a, b in (("fe25519_cswap", "s_fe_cswap"), ("fe25519_mul", "s_fe_binop"), ("fe25519_add", "s_fe_binop"), ("fe25519_sub", "s_fe_binop"),
      ("fe25519_sq", "s_fe_unop"), ("fe25519_copy", "s_fe_unop"), ("_sodium_fe25519_invert", "s_fe_unop"), ("fe25519_mul32", "s_fe_mul32"), ("_sodium_fe25519_frombytes", "s_fe_frombytes"), ("_sodium_fe25519_tobytes", "s_fe_tobytes"))], [])
OBLIGATIONS.append(ob("c05.f.generic_api", "harness/generic_c05.c", "hf_generic_c05", ["crypto_scalarmult", "crypto_scalarmult_base", "crypto_box_seed_keypair", "crypto_box_keypair", "crypto_box_beforenm", "crypto_box_afternm", "crypto_box_open_afternm", "crypto_box", "crypto_box_open", "size accessors"],
    "the generic crypto_scalarmult* and crypto_box key-generation / key-agreement / NaCl entry points call the Curve25519 function exactly once with the caller's arguments unchanged and in order and return its verdict (incl. the all-zero shared-secret failure and the verification verdicts)",
    props=("C05",), replayable=True, cbmc=["--unwind", "10", "--unwinding-assertions"],
    assumes=["the crypto_scalarmult_curve25519* / crypto_box_curve25519xsalsa20poly1305* callees are logging stubs with an arbitrary verdict here (their own obligations: c05.f.dispatch*, c05.f.box_*, box.*)"]))
OBLIGATIONS.append(ob("c05.f.ladder_structure", "harness/x25519.c", "hf_ladder", ["crypto_scalarmult_curve25519_ref10", "has_small_order"],
    "X25519 ref10: low-order points refused first; scalar clamped per RFC 7748; the ladder performs 255 steps whose conditional-swap bits are those of the clamped scalar, top bit first",
    gi_pre=RC, replayable=False, cbmc=["--unwind", "260", "--unwinding-assertions"], timeout=900,
    assumes=A + ["in this obligation the field operations are stubs (only the swap bits are recorded): it decides the control structure, not the field arithmetic"]))
