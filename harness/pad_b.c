/* Direct (replayable) harnesses for sodium_pad / sodium_unpad (C16): bounded stand-ins and the loop-free overflow guard. */
#include "vharness.h"
#include <stdlib.h>
#include "sodium/utils.c"

#ifndef VCAP
# define VCAP 18
#endif
#ifndef VBLK
# define VBLK 8
#endif
#ifndef VLEN
# define VLEN 9
#endif

struct vin_t { size_t len; size_t blocksize; size_t cap; unsigned char buf[VCAP]; };
struct vin_t nondet_vin(void);
struct vin_t vin;
VMISUSE_DEFINE

#ifndef VNATIVE
void explicit_bzero(void *s, size_t n) { unsigned char *p = s; size_t i; for (i = 0; i < n; i++) p[i] = 0; }
#endif

static unsigned char *dup_(const unsigned char *src, size_t n)
{
    unsigned char *p = malloc(n ? n : 1); size_t i;
#ifndef VNATIVE
    __CPROVER_assume(p != NULL);
    if (n == 0) { free(p); p = malloc(0); __CPROVER_assume(p != NULL); }
#endif
    for (i = 0; i < n; i++) p[i] = src[i];
    return p;
}

/* reference: padded length defined by the property */
/* len <= VLEN < 256 and bs <= VBLK < 256 here: an 8-bit remainder keeps the specification side small */
static size_t ref_padded(size_t len, size_t bs) { return len + (bs - (size_t) ((unsigned char) len % (unsigned char) bs)); }

void hb_pad(void)
{
    VIN_GET();
    VASSUME(vin.cap <= VCAP && vin.len <= VLEN && vin.blocksize <= VBLK);
    unsigned char *buf = dup_(vin.buf, vin.cap);
    size_t padded = 12345, i; int r = 99, ok = 1;
    v_misuse_expected = 0;
    VCALL(r = sodium_pad(&padded, buf, vin.len, vin.blocksize, vin.cap));
    if (VMISUSED()) return;
    if (vin.blocksize == 0 || ref_padded(vin.len, vin.blocksize) > vin.cap) {
        VASSERT("sodium_pad fails with -1 when blocksize is 0 or the result does not fit", r == -1);
        for (i = 0; i < vin.cap; i++) if (buf[i] != vin.buf[i]) ok = 0;
        VASSERT("sodium_pad leaves the buffer untouched on failure", ok);
    } else {
        size_t p = ref_padded(vin.len, vin.blocksize);
        VASSERT("sodium_pad returns 0 when the result fits", r == 0);
        VASSERT("sodium_pad reports len rounded up to the next multiple of blocksize (a whole block when aligned)", padded == p);
        for (i = 0; i < vin.cap; i++) {
            unsigned char want = i < vin.len ? vin.buf[i] : (i == vin.len ? 0x80 : (i < p ? 0 : vin.buf[i]));
            if (buf[i] != want) ok = 0;
        }
        VASSERT("sodium_pad writes 0x80 then zeros, data and bytes beyond the padding untouched", ok);
    }
    VREACH("hb_pad");
}

/* padded_buflen_p == NULL is allowed */
void hb_pad_nullp(void)
{
    VIN_GET();
    VASSUME(vin.cap <= VCAP && vin.len <= VLEN && vin.blocksize <= VBLK);
    unsigned char *buf = dup_(vin.buf, vin.cap);
    int r = 99;
    v_misuse_expected = 0;
    VCALL(r = sodium_pad(NULL, buf, vin.len, vin.blocksize, vin.cap));
    if (VMISUSED()) return;
    VASSERT("sodium_pad(NULL, ...) same status", (r == 0) == (vin.blocksize != 0 && ref_padded(vin.len, vin.blocksize) <= vin.cap));
    VREACH("hb_pad_nullp");
}

/* overflow guard: loop free (the guard precedes the loop): SIZE_MAX - len <= blocksize-1-(len mod blocksize)  => misuse */
void hf_pad_overflow(void)
{
    VIN_GET();
    VASSUME(vin.blocksize != 0);
    VASSUME((vin.blocksize & (vin.blocksize - 1)) == 0 || vin.blocksize <= 130);   /* symbolic 64-bit divisors do not discharge (DESIGN T15) */
    size_t xpad = vin.blocksize - 1 - vin.len % vin.blocksize;
    VASSUME(SIZE_MAX - vin.len <= xpad);            /* len + padding does not fit a size_t */
    unsigned char *buf = dup_(vin.buf, VCAP);
    size_t padded; int r;
    v_misuse_expected = 1;
    VREACH("hf_pad_overflow");
    VCALL(r = sodium_pad(&padded, buf, vin.len, vin.blocksize, vin.cap));
}

static int ref_unpad(const unsigned char *buf, size_t padded, size_t bs, size_t *out)
{
    size_t i;
    if (bs == 0 || padded < bs) return -1;
    for (i = 0; i < bs; i++) {
        unsigned char c = buf[padded - 1 - i];
        if (c == 0x80) { *out = padded - 1 - i; return 0; }
        if (c != 0) return -1;
    }
    return -1;
}

void hb_unpad(void)
{
    VIN_GET();
    VASSUME(vin.len <= VCAP && vin.blocksize <= VBLK);   /* len = padded length */
    unsigned char *buf = dup_(vin.buf, vin.len);
    size_t got = 777, want = 777; int r, w;
    v_misuse_expected = 0;
    w = ref_unpad(vin.buf, vin.len, vin.blocksize, &want);
    if (vin.blocksize != 0 && vin.len >= vin.blocksize) {
        /* only the final block may be read: hand over a pointer such that exactly that block is inside the object */
        unsigned char *blk = dup_(vin.buf + (vin.len - vin.blocksize), vin.blocksize);
        size_t got2 = 777; int r2;
        VCALL(r2 = sodium_unpad(&got2, blk, vin.blocksize, vin.blocksize));
        if (VMISUSED()) return;
        VASSERT("sodium_unpad depends on the final block only (status)", r2 == w);
        VASSERT("sodium_unpad depends on the final block only (length)", w != 0 || got2 + (vin.len - vin.blocksize) == want);
    }
    VCALL(r = sodium_unpad(&got, buf, vin.len, vin.blocksize));
    if (VMISUSED()) return;
    VASSERT("sodium_unpad accepts exactly a final block ending in 0x80 followed by zeros", r == w);
    VASSERT("sodium_unpad reports the position of the marker", w != 0 || got == want);
    VREACH("hb_unpad");
}

void hb_roundtrip(void)
{
    VIN_GET();
    VASSUME(vin.cap <= VCAP && vin.len <= VLEN && vin.blocksize <= VBLK && vin.blocksize != 0);
    VASSUME(ref_padded(vin.len, vin.blocksize) <= vin.cap);
    unsigned char *buf = dup_(vin.buf, vin.cap);
    size_t padded = 0, unpadded = 999; int r1 = 9, r2 = 9;
    v_misuse_expected = 0;
    VCALL(r1 = sodium_pad(&padded, buf, vin.len, vin.blocksize, vin.cap); r2 = sodium_unpad(&unpadded, buf, padded, vin.blocksize));
    if (VMISUSED()) return;
    VASSERT("unpad(pad(x)) succeeds", r1 == 0 && r2 == 0);
    VASSERT("unpad(pad(x)) returns the original length", unpadded == vin.len);
    VREACH("hb_roundtrip");
}

VNATIVE_MAIN(VENTRY)
