/* crypto_secretbox detached / easy / open forms (VAR 0: XSalsa20-Poly1305, crypto_secretbox_easy.c;
 * VAR 1: XChaCha20-Poly1305, secretbox_xchacha20poly1305.c) against the ghost transcript.  The only loops left are the
 * two <= 32-iteration copies through block0, so the obligations are finite-complete for every message length. */
#include "vharness.h"
#include <stdlib.h>
#define V_STUB_CHACHA20 1
#define V_STUB_SALSA20 1
#define V_STUB_HCHACHA20 1
#define V_STUB_HSALSA20 1
#define V_STUB_POLY1305 1
#define V_STUB_MEMZERO 1
#define V_MEMZERO_SILENT 1
#define V_STUB_RANDOMBYTES 1
#ifndef VNATIVE
# define V_STUB_MEMMOVE 1
#endif
#include "transcript.h"
/* wipes (sodium_memzero events) are not part of these properties: they may appear anywhere and are skipped */
#define SKIPZ(i) do { } while (0)   /* V_MEMZERO_SILENT: wipes are not logged */

#ifndef VAR
# define VAR 0
#endif
#if VAR == 1
# include "crypto_secretbox/xchacha20poly1305/secretbox_xchacha20poly1305.c"
# define FN(x) crypto_secretbox_xchacha20poly1305_##x
# define CIPHER V_C_CHACHA20
# define OP_H V_OP_HCHACHA
# define BLK0LEN(mlen0) ((mlen0) + 32)
# define MSGMAX crypto_secretbox_xchacha20poly1305_MESSAGEBYTES_MAX
#else
# include "crypto_secretbox/crypto_secretbox_easy.c"
# define FN(x) crypto_secretbox_##x
# define CIPHER V_C_SALSA20
# define OP_H V_OP_HSALSA
# define BLK0LEN(mlen0) 64
# define MSGMAX crypto_secretbox_MESSAGEBYTES_MAX
#endif
#ifndef VLMAX
# define VLMAX 4095ULL
#endif

struct vin_t {
    unsigned long long mlen; size_t gk; int m_mode; int verify_ret; unsigned char mold;
    unsigned char xb[64], hk[32], tag[16], mac[16], n[24], k[32], m0[32];
#ifdef VBUFSZ
    unsigned char ov[2 * 80 + VBUFSZ + 8];      /* arbitrary contents of the shared buffer of the overlap harnesses */
#endif
};
struct vin_t nondet_vin(void);
struct vin_t vin;
VMISUSE_DEFINE

static void *buf_(unsigned long long n)
{
#ifdef VBUFSZ
    void *p = malloc(VBUFSZ);
#else
    void *p = malloc(n ? n : 1);
#endif
#ifndef VNATIVE
    __CPROVER_assume(p != NULL);
# ifndef VBUFSZ
    if (n == 0) { free(p); p = malloc(0); __CPROVER_assume(p != NULL); }
# endif
#else
    memset(p, 0x33, n ? n : 1);
#endif
    return p;
}
/* distinct objects occupy disjoint address ranges (CBMC's integer view of pointers does not know this) */
static void disjoint_(const void *a, const void *b, unsigned long long n)
{
#if !defined(VNATIVE) && !defined(VNODISJ)
    if (a != NULL && b != NULL && a != b)
        __CPROVER_assume((uintptr_t) a + n <= (uintptr_t) b || (uintptr_t) b + n <= (uintptr_t) a);
#endif
}
static void setup_(void)
{
    v_subkey = vin.hk; v_tag = vin.tag; v_xb = vin.xb; v_ks0 = NULL; v_nlog = 0; v_log_overflow = 0; v_misuse_expected = 0;
    v_poly_verify_ret = vin.verify_ret; v_gidx = ~0ULL;
    v_ref_key = vin.k; v_ref_na = vin.n; v_ref_nb = vin.n + 16; v_ref_first = vin.m0;
}
static void check_seal_(const unsigned char *c, const unsigned char *mac, const unsigned char *m, unsigned long long mlen, const unsigned char *n, const unsigned char *k)
{
    unsigned long long mlen0 = mlen > 32 ? 32 : mlen; unsigned i = 0;
    VASSERT("sub-key = H(k, n[0..16)) with the default constant", V_EV(i).op == OP_H && (V_EV(i).flags & V_F_N_A) && (V_EV(i).flags & V_F_K_USER) && V_EV(i).st == NULL);
    const void *subkey = V_EV(i).out; i++;
    VASSERT("block 0 = 0^32 || m[0..32) encrypted in place with (n[16..24), sub-key), counter 0",
            V_EV(i).op == V_OP_XOR && V_EV(i).cipher == CIPHER && V_EV(i).out == V_EV(i).in && V_EV(i).len == BLK0LEN(mlen0) && V_EV(i).ic == 0 &&
            (V_EV(i).flags & V_F_N_B) && (V_EV(i).flags & V_F_K_SUB) && V_EV(i).kptr == subkey && (V_EV(i).flags & V_F_BLK0));
    const void *block0 = V_EV(i).out; i++;
    VASSERT("Poly1305 key = first 32 bytes of encrypted block 0", V_EV(i).op == V_OP_POLY_INIT && V_EV(i).kptr == block0 && (V_EV(i).flags & V_F_K_XB));
    const void *st = V_EV(i).st; i++;
    SKIPZ(i);
    if (mlen > 32) {
        VASSERT("rest of the message XORed with the stream from block counter 1",
                V_EV(i).op == V_OP_XOR && V_EV(i).cipher == CIPHER && V_EV(i).out == c + 32 && (V_EV(i).in == m + 32 || V_EV(i).in == c + 32) && V_EV(i).len == mlen - 32 && V_EV(i).ic == 1 &&
                (V_EV(i).flags & V_F_N_B) && (V_EV(i).flags & V_F_K_SUB)); i++;
    }
    SKIPZ(i);
    VASSERT("MAC over the whole ciphertext", V_EV(i).op == V_OP_POLY_UPDATE && V_EV(i).st == st && V_EV(i).in == c && V_EV(i).len == mlen); i++;
    VASSERT("tag to the mac output", V_EV(i).op == V_OP_POLY_FINAL && V_EV(i).st == st && V_EV(i).out == mac && v_eq(mac, vin.tag, 16)); i++;
    SKIPZ(i);
    SKIPZ(i);
    VASSERT("no further primitive calls", v_nlog == i && !v_log_overflow);
    if (vin.gk < mlen0) VASSERT("first ciphertext bytes = bytes 32.. of encrypted block 0", c[vin.gk] == vin.xb[32 + vin.gk]);
}

void hf_detached(void)
{
    VIN_GET(); setup_();
    VASSUME(vin.mlen <= VLMAX);
    unsigned long long mlen0 = vin.mlen > 32 ? 32 : vin.mlen; size_t j; v_ref_first_len = (size_t) mlen0;
    unsigned char *m = buf_(vin.mlen), *c = vin.m_mode ? m : buf_(vin.mlen), *mac = buf_(16); int r = 9;
    for (j = 0; j < mlen0; j++) m[j] = vin.m0[j];
    disjoint_(c, m, vin.mlen);
    VCALL(r = FN(detached)(c, mac, m, vin.mlen, vin.n, vin.k));
    if (VMISUSED()) return;
    VASSERT("returns 0", r == 0);
    check_seal_(c, mac, m, vin.mlen, vin.n, vin.k);
    VREACH("hf_detached");
}

void hf_easy(void)
{
    VIN_GET(); setup_();
    VASSUME(vin.mlen <= VLMAX);
    unsigned long long mlen0 = vin.mlen > 32 ? 32 : vin.mlen; size_t j; v_ref_first_len = (size_t) mlen0;
    unsigned char *m = buf_(vin.mlen), *c = buf_(vin.mlen + 16); int r = 9;
    for (j = 0; j < mlen0; j++) m[j] = vin.m0[j];
    disjoint_(c + 16, m, vin.mlen);
    VCALL(r = FN(easy)(c, m, vin.mlen, vin.n, vin.k));
    if (VMISUSED()) return;
    VASSERT("returns 0", r == 0);
    check_seal_(c + 16, c, m, vin.mlen, vin.n, vin.k);      /* easy == detached with output mac || ciphertext */
    VREACH("hf_easy");
}

void hf_easy_toolong(void)
{
    VIN_GET(); setup_();
    VASSUME(vin.mlen > MSGMAX);
    unsigned char d[16];
    v_misuse_expected = 1;
    VREACH("hf_easy_toolong");
    VCALL(FN(easy)(d, d, vin.mlen, vin.n, vin.k));
}

static void check_open_(int r, unsigned char *m, const unsigned char *c, const unsigned char *mac, unsigned long long clen, const unsigned char *n, const unsigned char *k, int m_is_fresh)
{
    unsigned long long mlen0 = clen > 32 ? 32 : clen; unsigned i = 0;
    VASSERT("sub-key = H(k, n[0..16))", V_EV(i).op == OP_H && (V_EV(i).flags & V_F_N_A) && (V_EV(i).flags & V_F_K_USER) && V_EV(i).st == NULL);
    const void *subkey = V_EV(i).out; i++;
    VASSERT("block 0 = 0^32 || c[0..32) run through the stream with (n[16..24), sub-key), counter 0",
            V_EV(i).op == V_OP_XOR && V_EV(i).cipher == CIPHER && V_EV(i).out == V_EV(i).in && V_EV(i).len == 64 && V_EV(i).ic == 0 &&
            (V_EV(i).flags & V_F_N_B) && (V_EV(i).flags & V_F_K_SUB) && (V_EV(i).flags & V_F_BLK0));
    const void *block0 = V_EV(i).out; i++;
    VASSERT("tag verified over the whole ciphertext with the key from block 0, before anything is written",
            V_EV(i).op == V_OP_POLY_VERIFY && V_EV(i).st == mac && V_EV(i).in == c && V_EV(i).len == clen && V_EV(i).kptr == block0 && (V_EV(i).flags & V_F_K_XB)); i++;
    VASSERT("accepted iff the Poly1305 verification returned 0", (r == 0) == (vin.verify_ret == 0));
    VASSERT("failure is -1", r == 0 || r == -1);
    if (vin.verify_ret != 0) {
    SKIPZ(i);
        SKIPZ(i);
        VASSERT("nothing else happens on failure (no keystream applied)", v_nlog == i && !v_log_overflow);
        if (m != NULL && m_is_fresh && vin.gk < clen) VASSERT("output buffer untouched on failure", m[vin.gk] == vin.mold);
        return;
    }
    if (m == NULL) { SKIPZ(i); VASSERT("verify-only mode: nothing else", v_nlog == i); return; }
    SKIPZ(i);
    if (clen > 32) {
        VASSERT("rest of the ciphertext XORed with the stream from block counter 1",
                V_EV(i).op == V_OP_XOR && V_EV(i).cipher == CIPHER && V_EV(i).out == m + 32 && (V_EV(i).in == c + 32 || V_EV(i).in == m + 32) && V_EV(i).len == clen - 32 && V_EV(i).ic == 1 &&
                (V_EV(i).flags & V_F_N_B) && (V_EV(i).flags & V_F_K_SUB)); i++;
    }
    SKIPZ(i);
    SKIPZ(i);
    VASSERT("no further primitive calls", v_nlog == i && !v_log_overflow);
    if (vin.gk < mlen0) VASSERT("first plaintext bytes = bytes 32.. of decrypted block 0", m[vin.gk] == vin.xb[32 + vin.gk]);
}

void hf_open_detached(void)
{
    VIN_GET(); setup_();
    VASSUME(vin.mlen <= VLMAX);
    unsigned long long mlen0 = vin.mlen > 32 ? 32 : vin.mlen; size_t j; v_ref_first_len = (size_t) mlen0;
    unsigned char *c = buf_(vin.mlen), *m; int r = 9;
#ifdef VM_MODE
    VASSUME(vin.m_mode == VM_MODE);
#endif
    m = vin.m_mode == 1 ? NULL : (vin.m_mode == 2 ? c : buf_(vin.mlen));
    for (j = 0; j < mlen0; j++) c[j] = vin.m0[j];
    if (m != NULL && m != c && vin.gk < vin.mlen) m[vin.gk] = vin.mold;
    disjoint_(c, m, vin.mlen);
    VCALL(r = FN(open_detached)(m, c, vin.mac, vin.mlen, vin.n, vin.k));
    if (VMISUSED()) return;
    check_open_(r, m, c, vin.mac, vin.mlen, vin.n, vin.k, m != c);
    VREACH("hf_open_detached");
}

void hf_open_easy(void)
{
    VIN_GET(); setup_();
    VASSUME(vin.mlen <= VLMAX + 16);                       /* mlen = clen here */
    unsigned long long clen = vin.mlen, ml = clen >= 16 ? clen - 16 : 0, mlen0 = ml > 32 ? 32 : ml; size_t j; v_ref_first_len = (size_t) mlen0;
    unsigned char *c = buf_(clen), *m = vin.m_mode == 1 ? NULL : buf_(ml); int r = 9;
    if (clen >= 16) for (j = 0; j < mlen0; j++) c[16 + j] = vin.m0[j];
    if (m != NULL && vin.gk < ml) m[vin.gk] = vin.mold;
    disjoint_(c + 16, m, ml);
    VCALL(r = FN(open_easy)(m, c, clen, vin.n, vin.k));
    if (VMISUSED()) return;
    if (clen < 16) {
        VASSERT("input shorter than the tag is rejected without touching anything", r == -1 && v_nlog == 0);
    } else {
        check_open_(r, m, c + 16, c, ml, vin.n, vin.k, 1);  /* open_easy == open_detached on (c+16, mac = c, clen-16) */
    }
    VREACH("hf_open_easy");
}

/* ---- C13: message and ciphertext inside ONE object at arbitrary relative offsets (exact aliasing included) ---- */
#ifndef VOV
# define VOV 80
#endif
#ifndef VDELTA
# define VDELTA 0
#endif
void hb_overlap_seal(void)
{
    VIN_GET(); setup_();
    size_t om = VOV, oc = VOV + (VDELTA);      /* constant offsets of m and c in the shared buffer: c - m = VDELTA */
    VASSUME(vin.mlen <= VLMAX);
    static unsigned char big[2 * VOV + VBUFSZ + 8], mac[16]; unsigned char *m = big + om, *c = big + oc, orig_g = 0; size_t j; int r;
    unsigned long long mlen0 = vin.mlen > 32 ? 32 : vin.mlen, g = vin.mold; v_ref_first_len = (size_t) mlen0;
    memcpy(big, vin.ov, sizeof big);                                        /* arbitrary buffer contents (a static array would be all zero) */
    for (j = 0; j < mlen0; j++) m[j] = vin.m0[j];
    if (vin.mlen > 32 && g < vin.mlen - 32) { orig_g = m[32 + g]; v_gidx = g; v_gidx_mm = 32 + g; }
    VCALL(r = FN(detached)(c, mac, m, vin.mlen, vin.n, vin.k));
    if (VMISUSED()) return;
    /* the stream stubs assert their own precondition (output == input pointer or no overlap) at every call */
    VASSERT("block 0 still holds 0^32 || first message bytes of the ORIGINAL message, whatever the overlap", V_EV(1).op == V_OP_XOR && (V_EV(1).flags & V_F_BLK0));
    if (vin.mlen > 32) {
        unsigned k2 = 4;      /* H, XOR(block0), POLY_INIT, [memzero silent], XOR_IC */
        VASSERT("the rest is encrypted from the original message bytes into c + 32 (same result as with disjoint buffers)",
                V_EV(3).op == V_OP_XOR && V_EV(3).out == c + 32 && V_EV(3).len == vin.mlen - 32 && V_EV(3).ic == 1 && (!(g < vin.mlen - 32) || (V_EV(3).has_gin && V_EV(3).gin == orig_g)));
        (void) k2;
    }
    if (vin.gk < mlen0) VASSERT("first ciphertext bytes come from the encrypted block 0", c[vin.gk % 32 < mlen0 ? vin.gk % 32 : 0] == vin.xb[32 + (vin.gk % 32 < mlen0 ? vin.gk % 32 : 0)]);
    VREACH("hb_overlap_seal");
}

void hb_overlap_open(void)
{
    VIN_GET(); setup_();
    size_t oc = VOV, om = VOV + (VDELTA);      /* m - c = VDELTA */
    VASSUME(vin.mlen <= VLMAX && vin.verify_ret == 0);
    static unsigned char big[2 * VOV + VBUFSZ + 8]; unsigned char *c = big + oc, *m = big + om, orig_g = 0; size_t j; int r;
    unsigned long long mlen0 = vin.mlen > 32 ? 32 : vin.mlen, g = vin.mold; v_ref_first_len = (size_t) mlen0;
    memcpy(big, vin.ov, sizeof big);                                        /* arbitrary buffer contents (a static array would be all zero) */
    for (j = 0; j < mlen0; j++) c[j] = vin.m0[j];
    if (vin.mlen > 32 && g < vin.mlen - 32) { orig_g = c[32 + g]; v_gidx = g; v_gidx_mm = 32 + g; }
    VCALL(r = FN(open_detached)(m, c, vin.mac, vin.mlen, vin.n, vin.k));
    if (VMISUSED()) return;
    VASSERT("opened", r == 0);
    VASSERT("block 0 = 0^32 || first bytes of the ORIGINAL ciphertext", V_EV(1).op == V_OP_XOR && (V_EV(1).flags & V_F_BLK0));
    if (vin.mlen > 32)
        VASSERT("the rest is decrypted from the original ciphertext bytes into m + 32 (same result as with disjoint buffers)",
                V_EV(3).op == V_OP_XOR && V_EV(3).out == m + 32 && V_EV(3).len == vin.mlen - 32 && V_EV(3).ic == 1 && (!(g < vin.mlen - 32) || (V_EV(3).has_gin && V_EV(3).gin == orig_g)));
    VREACH("hb_overlap_open");
}

VNATIVE_MAIN(VENTRY)
