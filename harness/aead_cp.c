/* ChaCha20-Poly1305 AEADs (original, IETF, XChaCha20): the real composition code of
 *   crypto_aead/chacha20poly1305/aead_chacha20poly1305.c   (VAR 0 = original, VAR 1 = IETF)
 *   crypto_aead/xchacha20poly1305/aead_xchacha20poly1305.c (VAR 2)
 * verified against the ghost transcript of the (assumed) primitives.  crypto_verify_16 keeps its real body.
 * No loop remains after the primitives are replaced: every message / ad length up to the object-size bound and every
 * content is covered in one query (kind F).  Serves C01 (construction), C02 (rejection), C12, C13 (call order). */
#include "vharness.h"
#include <stdlib.h>
#define V_STUB_CHACHA20 1
#define V_STUB_HCHACHA20 1
#define V_STUB_POLY1305 1
#define V_POLY_STREAM 1
#define V_STUB_MEMZERO 1
#define V_MEMZERO_SILENT 1
#define V_STUB_RANDOMBYTES 1
#include "transcript.h"
/* wipes (sodium_memzero events) are not part of these properties: they may appear anywhere and are skipped */
#define SKIPZ(i) do { } while (0)   /* V_MEMZERO_SILENT: wipes are not logged */
#include "crypto_verify/verify.c"

#ifndef VAR
# define VAR 1
#endif
#if VAR == 2
# include "crypto_aead/xchacha20poly1305/aead_xchacha20poly1305.c"
# define FN(x) crypto_aead_xchacha20poly1305_ietf_##x
# define NPUB 24
# define CIPHER V_C_CHACHA20_IETF_EXT
# define PADDED 1
# define BASE 1           /* index of the first event after the HChaCha20 sub-key derivation */
#elif VAR == 1
# include "crypto_aead/chacha20poly1305/aead_chacha20poly1305.c"
# define FN(x) crypto_aead_chacha20poly1305_ietf_##x
# define NPUB 12
# define CIPHER V_C_CHACHA20_IETF
# define PADDED 1
# define BASE 0
#else
# include "crypto_aead/chacha20poly1305/aead_chacha20poly1305.c"
# define FN(x) crypto_aead_chacha20poly1305_##x
# define NPUB 8
# define CIPHER V_C_CHACHA20
# define PADDED 0
# define BASE 0
#endif
#ifndef VLMAX
# define VLMAX 65535ULL
#endif

struct vin_t {
    unsigned long long mlen, adlen, clen, gm; size_t gk; int m_null, lenp_null; unsigned char mold;
    unsigned char ks0[64], hk[32], tag[16], mac[16], npub[24], k[32];
};
struct vin_t nondet_vin(void);
struct vin_t vin;
VMISUSE_DEFINE

static void *buf_(unsigned long long n)
{
    void *p = malloc(n ? n : 1);
#ifndef VNATIVE
    __CPROVER_assume(p != NULL);
    if (n == 0) { free(p); p = malloc(0); __CPROVER_assume(p != NULL); }
#else
    memset(p, 0x33, n ? n : 1);
#endif
    return p;
}
static unsigned char eff_nonce_[24];
static void setup_(void)
{
    int i;
    v_ks0 = vin.ks0; v_subkey = vin.hk; v_tag = vin.tag; v_mac_g = vin.gm; v_nlog = 0; v_log_overflow = 0; v_misuse_expected = 0;
    v_ref_key = vin.k; v_ref_nb = vin.npub;                 /* N_B: the caller's nonce (HChaCha20 reads its first 16 bytes) */
#if VAR == 2
    for (i = 0; i < 24; i++) eff_nonce_[i] = 0;
    for (i = 0; i < 8; i++) eff_nonce_[4 + i] = vin.npub[16 + i];   /* N_A: 0^4 || npub[16..24) */
#else
    for (i = 0; i < 24; i++) eff_nonce_[i] = vin.npub[i];
#endif
    v_ref_na = eff_nonce_;
}

/* expected (effective) nonce and key seen by the stream cipher */
static int nk_ok_(const struct v_ev *e, const unsigned char *npub, const unsigned char *k)
{
    (void) npub; (void) k;
#if VAR == 2
    return (e->flags & V_F_N_A) && (e->flags & V_F_K_SUB);          /* 0^4 || npub[16..24), HChaCha20 sub-key */
#else
    return (e->flags & V_F_N_A) && (e->flags & V_F_K_USER);
#endif
}

/* Events are looked up by kind, not by position, and the MAC input is checked as ONE byte stream (total length and the
 * byte at an arbitrary ghost offset), so the checks do not depend on how the code chunks its Poly1305 updates or orders
 * independent calls.  Orderings that matter are implied by values: the one-time key must equal keystream block 0 (so the
 * block was produced first), and on encryption the MACed byte must equal the FINAL content of c (so it was read after the
 * XOR, whose assumed contract leaves its output arbitrary). */
static unsigned count_(int op) { unsigned i, n = 0; for (i = 0; i < V_LOG_MAX; i++) if (i < v_nlog && v_log[i].op == op) n++; return n; }
static unsigned first_(int op) { unsigned i, r = 0; int f = 0; for (i = 0; i < V_LOG_MAX; i++) if (!f && i < v_nlog && v_log[i].op == op) { r = i; f = 1; } return r; }
static unsigned long long off_c_(unsigned long long adlen) { return PADDED ? adlen + ((16 - (adlen & 15)) & 15) : adlen + 8; }
static unsigned long long mac_total_(unsigned long long mlen, unsigned long long adlen) { return PADDED ? off_c_(adlen) + mlen + ((16 - (mlen & 15)) & 15) + 16 : off_c_(adlen) + mlen + 8; }
/* the byte the specification puts at offset g of the MAC input; cbyte = the ciphertext byte when g falls into c */
static unsigned char mac_expected_(unsigned long long g, unsigned char cbyte, unsigned long long mlen, const unsigned char *ad, unsigned long long adlen)
{
    unsigned long long oc = off_c_(adlen);
    if (g < adlen) return ad[g];
#if PADDED
    if (g < oc) return 0;
    if (g < oc + mlen) return cbyte;
    unsigned long long ol = oc + mlen + ((16 - (mlen & 15)) & 15);
    if (g < ol) return 0;
    if (g < ol + 8) return (unsigned char) (adlen >> (8 * (g - ol)));
    return (unsigned char) (mlen >> (8 * (g - ol - 8)));
#else
    if (g < oc) return (unsigned char) (adlen >> (8 * (g - adlen)));
    if (g < oc + mlen) return cbyte;
    return (unsigned char) (mlen >> (8 * (g - oc - mlen)));
#endif
}
static const void *mac_transcript_(unsigned char cbyte, unsigned long long mlen, const unsigned char *ad, unsigned long long adlen,
                                   const unsigned char *npub, const unsigned char *k)
{
    unsigned i;
#if VAR == 2
    i = first_(V_OP_HCHACHA);
    VASSERT("XChaCha20: sub-key = HChaCha20(k, npub[0..16)) with the default constant, derived once", count_(V_OP_HCHACHA) == 1 && V_EV(i).op == V_OP_HCHACHA && (V_EV(i).flags & V_F_N_B) && (V_EV(i).flags & V_F_K_USER) && V_EV(i).st == NULL);
#else
    VASSERT("no sub-key derivation in the ChaCha20 variants", count_(V_OP_HCHACHA) == 0);
#endif
    i = first_(V_OP_STREAM);
    VASSERT("Poly1305 key block = 64 bytes of keystream block 0 under (nonce, key)",
            count_(V_OP_STREAM) == 1 && V_EV(i).op == V_OP_STREAM && V_EV(i).cipher == CIPHER && V_EV(i).len == 64 && nk_ok_(&V_EV(i), npub, k));
    i = first_(V_OP_POLY_INIT);
    VASSERT("one-time key = first 32 bytes of that block; one MAC computation", count_(V_OP_POLY_INIT) == 1 && V_EV(i).op == V_OP_POLY_INIT && (V_EV(i).flags & V_F_K_KS0));
    const void *st = V_EV(i).st;
    VASSERT("all MAC input goes into that one Poly1305 state", !v_mac_bad_st);
#if PADDED
    VASSERT("MAC input length = |ad| + pad16 + |c| + pad16 + 8 + 8", v_mac_total == mac_total_(mlen, adlen));
    VASSERT("MAC input = ad || 0-pad to 16 || ciphertext || 0-pad to 16 || le64(adlen) || le64(mlen), byte for byte (arbitrary offset)",
            v_mac_has == (vin.gm < mac_total_(mlen, adlen)) && (!v_mac_has || v_mac_gbyte == mac_expected_(vin.gm, cbyte, mlen, ad, adlen)));
#else
    VASSERT("MAC input length = |ad| + 8 + |c| + 8", v_mac_total == mac_total_(mlen, adlen));
    VASSERT("MAC input = ad || le64(adlen) || ciphertext || le64(mlen), byte for byte (arbitrary offset)",
            v_mac_has == (vin.gm < mac_total_(mlen, adlen)) && (!v_mac_has || v_mac_gbyte == mac_expected_(vin.gm, cbyte, mlen, ad, adlen)));
#endif
    i = first_(V_OP_POLY_FINAL);
    VASSERT("tag = Poly1305 final of that state, once", count_(V_OP_POLY_FINAL) == 1 && V_EV(i).op == V_OP_POLY_FINAL && V_EV(i).st == st);
    return V_EV(i).out;
}
static int in_c_(unsigned long long mlen, unsigned long long adlen) { return vin.gm >= off_c_(adlen) && vin.gm - off_c_(adlen) < mlen; }

/* ------------------------------------------------------------------------------------------- encrypt (detached) */
static void check_encrypt_(const unsigned char *c, const unsigned char *mac, const unsigned char *m, unsigned long long mlen,
                           const unsigned char *ad, unsigned long long adlen, const unsigned char *npub, const unsigned char *k)
{
    unsigned char cbyte = in_c_(mlen, adlen) ? c[vin.gm - off_c_(adlen)] : 0;      /* the ciphertext as finally written */
    const void *out = mac_transcript_(cbyte, mlen, ad, adlen, npub, k);
    unsigned i = first_(V_OP_XOR);
    VASSERT("ciphertext = message XOR keystream from block counter 1 under (nonce, key), one pass",
            count_(V_OP_XOR) == 1 && V_EV(i).op == V_OP_XOR && V_EV(i).cipher == CIPHER && V_EV(i).out == c && V_EV(i).in == m && V_EV(i).len == mlen && V_EV(i).ic == 1 && nk_ok_(&V_EV(i), npub, k));
    VASSERT("tag written to the mac output", out == mac && v_eq(mac, vin.tag, 16));
    VASSERT("no further primitive calls", v_nlog == 4 + (VAR == 2) && !v_log_overflow);
}

void hf_encrypt_detached(void)
{
    VIN_GET(); setup_();
    VASSUME(vin.mlen <= VLMAX && vin.adlen <= VLMAX);
    unsigned char *m = buf_(vin.mlen), *c = vin.m_null ? m : buf_(vin.mlen), *ad = buf_(vin.adlen), *mac = buf_(16);
    unsigned long long maclen = 99; int r = 9;
    VCALL(r = FN(encrypt_detached)(c, mac, vin.lenp_null ? NULL : &maclen, m, vin.mlen, ad, vin.adlen, NULL, vin.npub, vin.k));
    if (VMISUSED()) return;
    VASSERT("encrypt_detached returns 0", r == 0);
    VASSERT("*maclen_p == 16", vin.lenp_null || maclen == 16);
    check_encrypt_(c, mac, m, vin.mlen, ad, vin.adlen, vin.npub, vin.k);
    VREACH("hf_encrypt_detached");
}

void hf_encrypt(void)
{
    VIN_GET(); setup_();
    VASSUME(vin.mlen <= VLMAX && vin.adlen <= VLMAX);
    unsigned char *c = buf_(vin.mlen + 16), *m = vin.m_null ? c : buf_(vin.mlen), *ad = buf_(vin.adlen);
    unsigned long long clen = 99; int r = 9;
    VCALL(r = FN(encrypt)(c, vin.lenp_null ? NULL : &clen, m, vin.mlen, ad, vin.adlen, NULL, vin.npub, vin.k));
    if (VMISUSED()) return;
    VASSERT("encrypt returns 0 and *clen_p == mlen + 16", r == 0 && (vin.lenp_null || clen == vin.mlen + 16));
    check_encrypt_(c, c + vin.mlen, m, vin.mlen, ad, vin.adlen, vin.npub, vin.k);   /* combined == detached with mac = c + mlen */
    VREACH("hf_encrypt");
}

void hf_encrypt_toolong(void)
{
    VIN_GET(); setup_();
    VASSUME(vin.mlen > FN(MESSAGEBYTES_MAX));
    unsigned char dummy[16]; unsigned long long clen;
    v_misuse_expected = 1;
    VREACH("hf_encrypt_toolong");
    VCALL(FN(encrypt)(dummy, &clen, dummy, vin.mlen, dummy, 0, NULL, vin.npub, vin.k));
}

/* ------------------------------------------------------------------------------------------- decrypt (detached) */
static void check_decrypt_(int r, unsigned char *m, const unsigned char *c, unsigned long long mlen, const unsigned char *mac,
                           const unsigned char *ad, unsigned long long adlen, const unsigned char *npub, const unsigned char *k, int have_gk, unsigned char cbyte)
{
    int tag_ok = v_eq(vin.tag, mac, 16);
    (void) mac_transcript_(cbyte, mlen, ad, adlen, npub, k);                        /* cbyte: the ciphertext as given */
    VASSERT("accepted iff the recomputed tag equals the given tag in all 16 bytes", (r == 0) == tag_ok);
    VASSERT("failure is reported as -1", r == 0 || r == -1);
    if (m != NULL && tag_ok) {
        unsigned i = first_(V_OP_XOR);
        VASSERT("plaintext = ciphertext XOR keystream from block counter 1 under (nonce, key), one pass",
                count_(V_OP_XOR) == 1 && V_EV(i).op == V_OP_XOR && V_EV(i).cipher == CIPHER && V_EV(i).out == m && V_EV(i).in == c && V_EV(i).len == mlen && V_EV(i).ic == 1 && nk_ok_(&V_EV(i), npub, k));
    } else {
        VASSERT("no keystream is applied to the output on failure or in verify-only mode", count_(V_OP_XOR) == 0);
    }
    VASSERT("no further primitive calls", v_nlog == 3 + (VAR == 2) + count_(V_OP_XOR) && !v_log_overflow);
    if (m != NULL && !tag_ok && have_gk) VASSERT("on failure the output buffer holds zeros (a filler independent of key and data)", m[vin.gk] == 0);
}

void hf_decrypt_detached(void)
{
    VIN_GET(); setup_();
    VASSUME(vin.mlen <= VLMAX && vin.adlen <= VLMAX);
    unsigned char *c = buf_(vin.mlen), *m = vin.m_null == 1 ? NULL : (vin.m_null == 2 ? c : buf_(vin.mlen)), *ad = buf_(vin.adlen);
    int have_gk = vin.gk < vin.mlen, r = 9;
    if (m != NULL && have_gk && m != c) m[vin.gk] = vin.mold;
    unsigned char cbyte = in_c_(vin.mlen, vin.adlen) ? c[vin.gm - off_c_(vin.adlen)] : 0;
    VCALL(r = FN(decrypt_detached)(m, NULL, c, vin.mlen, vin.mac, ad, vin.adlen, vin.npub, vin.k));
    if (VMISUSED()) return;
    check_decrypt_(r, m, c, vin.mlen, vin.mac, ad, vin.adlen, vin.npub, vin.k, have_gk && m != c, cbyte);
    VREACH("hf_decrypt_detached");
}

void hf_decrypt(void)
{
    VIN_GET(); setup_();
    VASSUME(vin.clen <= VLMAX + 16 && vin.adlen <= VLMAX);
    unsigned long long ml = vin.clen >= 16 ? vin.clen - 16 : 0, mlen_out = 99;
    unsigned char *c = buf_(vin.clen), *m = vin.m_null == 1 ? NULL : (vin.m_null == 2 ? c : buf_(ml)), *ad = buf_(vin.adlen);
    int have_gk = vin.gk < ml, r = 9; size_t j;
    if (vin.clen >= 16) for (j = 0; j < 16; j++) c[ml + j] = vin.mac[j];
    if (m != NULL && have_gk && m != c) m[vin.gk] = vin.mold;
    unsigned char cbyte = (vin.clen >= 16 && in_c_(ml, vin.adlen)) ? c[vin.gm - off_c_(vin.adlen)] : 0;
    VCALL(r = FN(decrypt)(m, vin.lenp_null ? NULL : &mlen_out, NULL, c, vin.clen, ad, vin.adlen, vin.npub, vin.k));
    if (VMISUSED()) return;
    if (vin.clen < 16) {
        VASSERT("input shorter than the tag is rejected without touching anything", r == -1 && v_nlog == 0);
        if (m != NULL && have_gk && m != c) VASSERT("output untouched", m[vin.gk] == vin.mold);
    } else {
        check_decrypt_(r, m, c, ml, c + ml, ad, vin.adlen, vin.npub, vin.k, have_gk && m != c, cbyte);
    }
    VASSERT("reported message length is clen-16 on success and 0 on failure", vin.lenp_null || mlen_out == (r == 0 ? ml : 0));
    VREACH("hf_decrypt");
}

void hf_keygen(void)
{
    VIN_GET(); setup_();
    unsigned char *k = buf_(32);
    FN(keygen)(k);
    VASSERT("keygen = exactly one request of 32 bytes from the random source into k", v_nlog == 1 && V_EV(0).op == V_OP_RANDOM && V_EV(0).out == k && V_EV(0).len == 32);
    VREACH("hf_keygen");
}

VNATIVE_MAIN(VENTRY)
