/* stream_chacha20.c dispatcher (C03, C12, C10): length guards, the IETF 32-bit counter guard, forwarding of arguments.
 * The back end is a logging stub installed through the implementation table of the real file. */
#include "vharness.h"
#include <stdlib.h>
struct crypto_stream_chacha20_implementation;
#include "crypto_stream/chacha20/stream_chacha20.h"
/* back ends referenced by the dispatcher: logging stubs */
static int n_calls, last_kind; static unsigned char *last_c; static const unsigned char *last_m, *last_n, *last_k; static unsigned long long last_len, last_ic;
static int b_stream(unsigned char *c, unsigned long long clen, const unsigned char *n, const unsigned char *k) { n_calls++; last_kind = 1; last_c = c; last_len = clen; last_n = n; last_k = k; return 0; }
static int b_stream_ietf_ext(unsigned char *c, unsigned long long clen, const unsigned char *n, const unsigned char *k) { n_calls++; last_kind = 2; last_c = c; last_len = clen; last_n = n; last_k = k; return 0; }
static int b_xor_ic(unsigned char *c, const unsigned char *m, unsigned long long mlen, const unsigned char *n, uint64_t ic, const unsigned char *k) { n_calls++; last_kind = 3; last_c = c; last_m = m; last_len = mlen; last_n = n; last_ic = ic; last_k = k; return 0; }
static int b_ietf_ext_xor_ic(unsigned char *c, const unsigned char *m, unsigned long long mlen, const unsigned char *n, uint32_t ic, const unsigned char *k) { n_calls++; last_kind = 4; last_c = c; last_m = m; last_len = mlen; last_n = n; last_ic = ic; last_k = k; return 0; }
struct crypto_stream_chacha20_implementation crypto_stream_chacha20_ref_implementation = { b_stream, b_stream_ietf_ext, b_xor_ic, b_ietf_ext_xor_ic };
#define V_STUB_RANDOMBYTES 1
#include "transcript.h"
int sodium_runtime_has_avx2(void) { return 0; }
int sodium_runtime_has_ssse3(void) { return 0; }
#include "crypto_stream/chacha20/stream_chacha20.c"

struct vin_t { unsigned long long mlen; uint32_t ic32; uint64_t ic64; int which; };
struct vin_t nondet_vin(void);
struct vin_t vin;
VMISUSE_DEFINE
static unsigned char cbuf[4], mbuf[4], nbuf[12], kbuf[32];

/* the IETF variant must never wrap its 32-bit block counter silently:
 * refused (misuse handler) exactly when  ic + ceil(mlen/64) > 2^32,  for every length and counter */
void hf_ietf_counter_guard(void)
{
    VIN_GET(); n_calls = 0;
    unsigned __int128 blocks = ((unsigned __int128) vin.mlen + 63) / 64;
    v_misuse_expected = ((unsigned __int128) vin.ic32 + blocks) > ((unsigned __int128) 1 << 32);
    VREACH("hf_ietf_counter_guard");
    VCALL(crypto_stream_chacha20_ietf_xor_ic(cbuf, mbuf, vin.mlen, nbuf, vin.ic32, kbuf));
    if (VMISUSED()) return;
    VASSERT("in-range request forwarded unchanged to the back end (IETF layout, same counter)", n_calls == 1 && last_kind == 4 && last_c == cbuf && last_m == mbuf && last_len == vin.mlen && last_n == nbuf && last_ic == vin.ic32 && last_k == kbuf);
}
void hf_ietf_len_guards(void)
{
    VIN_GET(); n_calls = 0;
    VASSUME(vin.which == 0 || vin.which == 1);
    v_misuse_expected = vin.mlen > 64ULL * (1ULL << 32);            /* more than 2^32 blocks from counter 0 */
    VREACH("hf_ietf_len_guards");
    if (vin.which == 0) { VCALL(crypto_stream_chacha20_ietf(cbuf, vin.mlen, nbuf, kbuf)); }
    else { VCALL(crypto_stream_chacha20_ietf_xor(cbuf, mbuf, vin.mlen, nbuf, kbuf)); }
    if (VMISUSED()) return;
    VASSERT("forwarded unchanged with counter 0", n_calls == 1 && last_c == cbuf && last_len == vin.mlen && last_n == nbuf && last_k == kbuf && (vin.which == 0 ? last_kind == 2 : (last_kind == 4 && last_m == mbuf && last_ic == 0)));
}
void hf_forwarding(void)
{
    VIN_GET(); n_calls = 0; v_misuse_expected = 0;
    VASSUME(vin.which >= 0 && vin.which <= 4);
    switch (vin.which) {
    case 0: VCALL(crypto_stream_chacha20(cbuf, vin.mlen, nbuf, kbuf)); break;
    case 1: VCALL(crypto_stream_chacha20_xor_ic(cbuf, mbuf, vin.mlen, nbuf, vin.ic64, kbuf)); break;
    case 2: VCALL(crypto_stream_chacha20_xor(cbuf, mbuf, vin.mlen, nbuf, kbuf)); break;
    case 3: VCALL(crypto_stream_chacha20_ietf_ext(cbuf, vin.mlen, nbuf, kbuf)); break;
    default: VCALL(crypto_stream_chacha20_ietf_ext_xor_ic(cbuf, mbuf, vin.mlen, nbuf, vin.ic32, kbuf)); break;
    }
    if (VMISUSED()) return;
    VASSERT("exactly one back-end call with the caller's arguments",
            n_calls == 1 && last_c == cbuf && last_len == vin.mlen && last_n == nbuf && last_k == kbuf &&
            (vin.which == 0 ? last_kind == 1 : vin.which == 1 ? (last_kind == 3 && last_ic == vin.ic64 && last_m == mbuf) : vin.which == 2 ? (last_kind == 3 && last_ic == 0 && last_m == mbuf) :
             vin.which == 3 ? last_kind == 2 : (last_kind == 4 && last_ic == vin.ic32 && last_m == mbuf)));
    VREACH("hf_forwarding");
}
VNATIVE_MAIN(VENTRY)
