/* AEGIS-128L / AEGIS-256 portable (soft) back end, decrypt_detached (C02, C12): AEGIS decrypts before it verifies, so
 * on a tag mismatch the WHOLE output must be overwritten with zeros and -1 returned; in verify-only mode (m == NULL)
 * nothing is written.  The AES round function is an assumed callee returning arbitrary blocks (the rejection behaviour
 * does not depend on it).  Equality with the AEGIS specification is NOT decided. */
#include "vharness.h"
#include <stdlib.h>
#include <string.h>
#include "private/softaes.h"
struct vin_t { size_t mlen, adlen, gk; int maclen32, m_null; unsigned char mac[32], k[32], n[32], mold; };
struct vin_t nondet_vin(void);
struct vin_t vin;
SoftAesBlock nondet_block(void);
#ifdef VNATIVE
SoftAesBlock softaes_block_encrypt(const SoftAesBlock block, const SoftAesBlock rk) { SoftAesBlock o = block; o.w0 ^= rk.w1 * 2654435761u; o.w1 ^= rk.w2 + 77; o.w2 ^= rk.w3; o.w3 ^= rk.w0; return o; }
#else
SoftAesBlock softaes_block_encrypt(const SoftAesBlock block, const SoftAesBlock rk) { (void) block; (void) rk; return nondet_block(); }
#endif
#include "crypto_verify/verify.c"
#if AEGIS256
# include "crypto_aead/aegis256/aegis256_soft.c"
#else
# include "crypto_aead/aegis128l/aegis128l_soft.c"
#endif
#ifndef VMAXAD
# define VMAXAD 40
#endif
#ifndef VMAXL
# define VMAXL 70
#endif
void hb_aegis_decrypt(void)
{
    VIN_GET();
    VASSUME(vin.mlen <= VMAXL && vin.adlen <= VMAXAD);
    unsigned char c[VMAXL + 2], m[VMAXL + 2], ad[42]; size_t maclen = vin.maclen32 ? 32 : 16, i; int r, have = vin.gk < vin.mlen, ok = 1;
    for (i = 0; i < VMAXL + 2; i++) m[i] = 0xA5;
    r = decrypt_detached(vin.m_null ? NULL : m, c, vin.mlen, vin.mac, maclen, ad, vin.adlen, vin.n, vin.k);
    VASSERT("returns 0 or -1", r == 0 || r == -1);
    if (vin.m_null) { for (i = 0; i < VMAXL + 2; i++) if (m[i] != 0xA5) ok = 0; VASSERT("verify-only mode writes nothing", ok); }
    else {
        if (r != 0 && have) VASSERT("on tag mismatch every byte of the (already decrypted) output is overwritten with zero", m[vin.gk] == 0);
        VASSERT("nothing is written beyond mlen", m[vin.mlen] == 0xA5 && m[vin.mlen + 1] == 0xA5);
    }
    VREACH("hb_aegis_decrypt");
}
VNATIVE_MAIN(VENTRY)
