/* C10 helpers: endian load/store and rotate macros of private/common.h (both the NATIVE_LITTLE_ENDIAN memcpy forms and
 * the portable shift forms equal the mathematical definition), the no-AES-NI build of the AES-256-GCM API failing
 * cleanly, and sequential idempotence of sodium_init. */
#include "vharness.h"
#include <stdlib.h>
#include <string.h>
#include <errno.h>
struct vin_t { unsigned char b[8], buf[16]; uint64_t x64; uint32_t x32; int r, n; };
struct vin_t nondet_vin(void);
struct vin_t vin;
#if PART == 0
#include "private/common.h"
void hf_endian(void)
{
    VIN_GET();
    uint64_t le = 0, be = 0; unsigned char o[8], w[8]; int i, ok = 1;
    for (i = 7; i >= 0; i--) le = (le << 8) | vin.b[i];
    for (i = 0; i < 8; i++) be = (be << 8) | vin.b[i];
    VASSERT("LOAD64_LE / LOAD64_BE / LOAD32_LE / LOAD32_BE read little- / big-endian integers", LOAD64_LE(vin.b) == le && LOAD64_BE(vin.b) == be && LOAD32_LE(vin.b) == (uint32_t) le && LOAD32_BE(vin.b) == (uint32_t) (be >> 32));
    STORE64_LE(o, vin.x64); for (i = 0; i < 8; i++) w[i] = (unsigned char) (vin.x64 >> (8 * i)); for (i = 0; i < 8; i++) if (o[i] != w[i]) ok = 0;
    STORE64_BE(o, vin.x64); for (i = 0; i < 8; i++) if (o[i] != w[7 - i]) ok = 0;
    STORE32_LE(o, vin.x32); for (i = 0; i < 4; i++) if (o[i] != (unsigned char) (vin.x32 >> (8 * i))) ok = 0;
    STORE32_BE(o, vin.x32); for (i = 0; i < 4; i++) if (o[i] != (unsigned char) (vin.x32 >> (8 * (3 - i)))) ok = 0;
    VASSERT("STORE64/32 LE/BE write the integer's bytes in the stated order", ok);
    VASSUME(vin.n >= 1 && vin.n <= 31);
    VASSERT("ROTL32 / ROTR32 / ROTL64 / ROTR64 are rotations", ROTL32(vin.x32, vin.n) == ((vin.x32 << vin.n) | (vin.x32 >> (32 - vin.n))) && ROTR32(vin.x32, vin.n) == ((vin.x32 >> vin.n) | (vin.x32 << (32 - vin.n))) &&
            ROTL64(vin.x64, vin.n) == ((vin.x64 << vin.n) | (vin.x64 >> (64 - vin.n))) && ROTR64(vin.x64, vin.n) == ((vin.x64 >> vin.n) | (vin.x64 << (64 - vin.n))));
    VREACH("hf_endian");
}
#elif PART == 1
/* build without AES-NI / PCLMUL headers: every AES-256-GCM entry point fails with -1 / ENOSYS, writes nothing, and the
 * API reports itself unavailable */
void randombytes_buf(void *const buf, const size_t size) { (void) buf; (void) size; }
#include "crypto_aead/aes256gcm/aead_aes256gcm.c"
void hf_aes256gcm_absent(void)
{
    VIN_GET();
    unsigned char c[16], m[16], mac[16], k[32], n[12]; unsigned long long l = 77; int r, i, ok = 1;
    for (i = 0; i < 16; i++) { c[i] = vin.buf[i]; m[i] = vin.buf[i]; mac[i] = vin.buf[i]; }
    VASSERT("not available", crypto_aead_aes256gcm_is_available() == 0);
    errno = 0; r = crypto_aead_aes256gcm_encrypt(c, &l, m, 16, NULL, 0, NULL, n, k);
    VASSERT("encrypt fails cleanly with ENOSYS", r == -1 && errno == ENOSYS);
    errno = 0; r = crypto_aead_aes256gcm_decrypt(m, &l, NULL, c, 16, NULL, 0, n, k);
    VASSERT("decrypt fails cleanly with ENOSYS", r == -1 && errno == ENOSYS);
    errno = 0; r = crypto_aead_aes256gcm_encrypt_detached(c, mac, &l, m, 16, NULL, 0, NULL, n, k);
    VASSERT("encrypt_detached fails cleanly", r == -1 && errno == ENOSYS);
    errno = 0; r = crypto_aead_aes256gcm_decrypt_detached(m, NULL, c, 16, mac, NULL, 0, n, k);
    VASSERT("decrypt_detached fails cleanly", r == -1 && errno == ENOSYS);
    for (i = 0; i < 16; i++) if (c[i] != vin.buf[i] || m[i] != vin.buf[i] || mac[i] != vin.buf[i]) ok = 0;
    VASSERT("nothing is written to the output buffers", ok);
    VREACH("hf_aes256gcm_absent");
}
#else
/* sodium_init: a second sequential call returns 1 and runs no initialiser again */
#include <pthread.h>
static int n_init;
int _sodium_runtime_get_cpu_features(void) { n_init++; return 0; }
void randombytes_stir(void) { n_init++; }
int _sodium_alloc_init(void) { n_init++; return 0; }
int _crypto_pwhash_argon2_pick_best_implementation(void) { n_init++; return 0; }
int _crypto_generichash_blake2b_pick_best_implementation(void) { n_init++; return 0; }
int _crypto_onetimeauth_poly1305_pick_best_implementation(void) { n_init++; return 0; }
int _crypto_scalarmult_curve25519_pick_best_implementation(void) { n_init++; return 0; }
int _crypto_stream_chacha20_pick_best_implementation(void) { n_init++; return 0; }
int _crypto_stream_salsa20_pick_best_implementation(void) { n_init++; return 0; }
int _crypto_aead_aegis128l_pick_best_implementation(void) { n_init++; return 0; }
int _crypto_aead_aegis256_pick_best_implementation(void) { n_init++; return 0; }
int pthread_mutex_lock(pthread_mutex_t *m) { (void) m; return 0; }
int pthread_mutex_unlock(pthread_mutex_t *m) { (void) m; return 0; }
#include "sodium/core.c"
void hf_init_idempotent(void)
{
    VIN_GET();
    int a, b, c, first;
    n_init = 0; a = sodium_init(); first = n_init;
    b = sodium_init(); c = sodium_init();
    VASSERT("the first call initialises everything once and returns 0; later sequential calls return 1 and re-run nothing", a == 0 && first == 11 && b == 1 && c == 1 && n_init == first);
    VREACH("hf_init_idempotent");
}
#endif
VNATIVE_MAIN(VENTRY)
