/* sc25519_muladd / sc25519_reduce (crypto_core/ed25519/ref10/ed25519_ref10.c), C06 / C07 / C12: the reduction modulo
 * the group order L on the real, un-extracted functions, for operand classes whose limb products need no symbolic
 * multiplier:  muladd(a, b, c) with a in {0, 1} gives (a*b + c) mod L for EVERY b, c < 2^256 (all 2^512 pairs);
 * reduce(s) for every s below 2^(8*RB) (RB constant).  The result must be the canonical representative (< L) and
 * congruent to the exact integer; the quotient is small, so congruence is "difference is one of the multiples q*L".
 * NOT decided here: general a (21-bit limb products, a symbolic multiplier per limb pair). */
#include "vharness.h"
#include <stdlib.h>
#include <string.h>
#define V_STUB_MEMZERO 1
#define V_MEMZERO_SILENT 1
#include "transcript.h"
#include "crypto_core/ed25519/ref10/ed25519_ref10.c"

struct vin_t { unsigned char b[32], c[32], s[64]; int a1; };
struct vin_t nondet_vin(void);
struct vin_t vin;
VMISUSE_DEFINE
#ifndef RB
# define RB 34
#endif
#ifndef VNATIVE
typedef unsigned __CPROVER_bitvector[600] bv;
static bv le_(const unsigned char *p, int n) { bv v = 0; int i; for (i = n - 1; i >= 0; i--) v = (v << 8) | p[i]; return v; }
static bv order_(void) { static const unsigned char L[32] = { 0xed, 0xd3, 0xf5, 0x5c, 0x1a, 0x63, 0x12, 0x58, 0xd6, 0x9c, 0xf7, 0xa2, 0xde, 0xf9, 0xde, 0x14, 0, 0, 0, 0, 0, 0, 0, 0, 0, 0, 0, 0, 0, 0, 0, 0x10 }; return le_(L, 32); }
/* T == out + q*L for some 0 <= q < 2^QB, decided by peeling the quotient bits from the top (no multiplier) */
static int congruent_small_(bv T, bv out, int qbits) { bv d = T - out, L = order_(); int i; if (T < out) return 0; for (i = qbits - 1; i >= 0; i--) if (d >= (L << i)) d -= (L << i); return d == 0; }
#endif

void hf_muladd_01(void)
{
    VIN_GET();
    unsigned char a[32], out[32]; memset(a, 0, 32); a[0] = vin.a1 ? 1 : 0;
    sc25519_muladd(out, a, vin.b, vin.c);
#ifndef VNATIVE
    bv T = (vin.a1 ? le_(vin.b, 32) : (bv) 0) + le_(vin.c, 32), O = le_(out, 32);
    VASSERT("sc25519_muladd(a, b, c) for a in {0,1}: the result is below the group order L", O < order_());
    VASSERT("and congruent to a*b + c modulo L (exact integer arithmetic, every b, c below 2^256)", congruent_small_(T, O, 6));
#else
    VASSERT("native replay: result canonical", sc25519_is_canonical(out));
#endif
    VREACH("hf_muladd_01");
}
void hf_reduce(void)
{
    VIN_GET();
    unsigned char s[64]; int i; for (i = 0; i < 64; i++) s[i] = i < RB ? vin.s[i] : 0;
#ifndef VNATIVE
    bv T = le_(s, 64);
#endif
    sc25519_reduce(s);
#ifndef VNATIVE
    bv O = le_(s, 32);
    VASSERT("sc25519_reduce(s): the result is below the group order L", O < order_());
    VASSERT("and congruent to s modulo L (exact integer arithmetic)", congruent_small_(T, O, 8 * RB - 252 + 1));
#else
    VASSERT("native replay: result canonical", sc25519_is_canonical(s));
#endif
    VREACH("hf_reduce");
}
VNATIVE_MAIN(VENTRY)
