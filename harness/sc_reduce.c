/* sc25519_muladd / sc25519_reduce (crypto_core/ed25519/ref10/ed25519_ref10.c), C06 / C07 / C12: the reduction modulo
 * the group order L on the real, un-extracted functions, for operand classes whose limb products need no symbolic
 * multiplier:  muladd(a, b, c) with a in {0, 1} gives (a*b + c) mod L for EVERY b, c < 2^256 (all 2^512 pairs);
 * reduce(s) for every s below 2^(8*RB) (RB constant).  The result must be the canonical representative (< L) and
 * congruent to the exact integer; the quotient is small, so congruence is "difference is one of the multiples q*L".
 * NOT decided here: general a (21-bit limb products, a symbolic multiplier per limb pair). */
#include "vharness.h"
#include <stdlib.h>
#include <string.h>
#define V_STUB_MEMZERO 1
#define V_MEMZERO_SILENT 1
#include "transcript.h"
#include "crypto_core/ed25519/ref10/ed25519_ref10.c"

struct vin_t { unsigned char b[32], c[32], s[64]; int a1; };
struct vin_t nondet_vin(void);
struct vin_t vin;
VMISUSE_DEFINE
#ifndef AVAL
# define AVAL 1          /* 0 or 1 */
#endif
#ifndef AIDX
# define AIDX 0
#endif
#ifndef RB
# define RB 34
#endif
static const unsigned char ORDER_L[32] = { 0xed, 0xd3, 0xf5, 0x5c, 0x1a, 0x63, 0x12, 0x58, 0xd6, 0x9c, 0xf7, 0xa2, 0xde, 0xf9, 0xde, 0x14, 0, 0, 0, 0, 0, 0, 0, 0, 0, 0, 0, 0, 0, 0, 0, 0x10 };
#ifndef VNATIVE
typedef unsigned __CPROVER_bitvector[600] bv;
static bv le_(const unsigned char *p, int n) { bv v = 0; int i; for (i = n - 1; i >= 0; i--) v = (v << 8) | p[i]; return v; }
static bv order_(void) { return le_(ORDER_L, 32); }
/* T == out + q*L for some 0 <= q < 2^qbits, decided by peeling the quotient bits from the top (no multiplier) */
static int congruent_small_(bv T, bv out, int qbits) { bv d = T - out, L = order_(); int i; if (T < out) return 0; for (i = qbits - 1; i >= 0; i--) if (d >= (L << i)) d -= (L << i); return d == 0; }
#else
/* native replay: the same test on 80-byte little-endian arrays */
typedef struct { unsigned char v[80]; } bv;
static bv le_(const unsigned char *p, int n) { bv r; int i; memset(&r, 0, sizeof r); for (i = 0; i < n; i++) r.v[i] = p[i]; return r; }
static int ge_(const bv *a, const bv *b) { int i; for (i = 79; i >= 0; i--) if (a->v[i] != b->v[i]) return a->v[i] > b->v[i]; return 1; }
static void sub_(bv *a, const bv *b) { int i, bo = 0; for (i = 0; i < 80; i++) { int d = a->v[i] - b->v[i] - bo; bo = d < 0; a->v[i] = (unsigned char) d; } }
static void add_(bv *a, const bv *b) { int i, c = 0; for (i = 0; i < 80; i++) { int d = a->v[i] + b->v[i] + c; c = d >> 8; a->v[i] = (unsigned char) d; } }
static bv shl_(const bv *a, int n) { bv r; int i; memset(&r, 0, sizeof r); for (i = 0; i < 640; i++) { int j = i - n; if (j >= 0 && ((a->v[j >> 3] >> (j & 7)) & 1)) r.v[i >> 3] |= (unsigned char) (1 << (i & 7)); } return r; }
static int below_order_(const unsigned char *o) { bv a = le_(o, 32), l = le_(ORDER_L, 32); return !ge_(&a, &l); }
static int congruent_small_(bv T, bv out, int qbits) { bv d = T, L = le_(ORDER_L, 32), z; int i; memset(&z, 0, sizeof z); if (!ge_(&T, &out)) return 0; sub_(&d, &out); for (i = qbits - 1; i >= 0; i--) { bv s = shl_(&L, i); if (ge_(&d, &s)) sub_(&d, &s); } return ge_(&z, &d); }
#endif

void hf_muladd_01(void)
{
    VIN_GET();
    unsigned char a[32], out[32]; memset(a, 0, 32); a[AIDX] = AVAL;        /* a = AVAL * 2^(8*AIDX): a constant, so every limb product folds */
    sc25519_muladd(out, a, vin.b, vin.c);
#ifndef VNATIVE
    bv T = (AVAL ? (le_(vin.b, 32) << (8 * AIDX)) : (bv) 0) + le_(vin.c, 32), O = le_(out, 32);
    VASSERT("sc25519_muladd(a, b, c) for the constant a: the result is below the group order L", O < order_());
#else
    bv T = le_(vin.c, 32), O = le_(out, 32), B = le_(vin.b, 32); int k;
    for (k = 0; k < AVAL; k++) { bv sh = shl_(&B, 8 * AIDX); add_(&T, &sh); }
    VASSERT("sc25519_muladd(a, b, c) for the constant a: the result is below the group order L", below_order_(out));
#endif
    VASSERT("and congruent to a*b + c modulo L (exact integer arithmetic, every b, c below 2^256)", congruent_small_(T, O, 8 * AIDX + 14));
    VREACH("hf_muladd_01");
}
void hf_mul_01(void)
{
    VIN_GET();
    unsigned char a[32], out[32]; memset(a, 0, 32); a[AIDX] = AVAL;
    sc25519_mul(out, a, vin.b);
#ifndef VNATIVE
    bv T = AVAL ? (le_(vin.b, 32) << (8 * AIDX)) : (bv) 0, O = le_(out, 32);
    VASSERT("sc25519_mul(a, b) for the constant a: the result is below the group order L", O < order_());
#else
    bv T, O = le_(out, 32), B = le_(vin.b, 32); int k; memset(&T, 0, sizeof T);
    for (k = 0; k < AVAL; k++) { bv sh = shl_(&B, 8 * AIDX); add_(&T, &sh); }
    VASSERT("sc25519_mul(a, b) for the constant a: the result is below the group order L", below_order_(out));
#endif
    VASSERT("and congruent to a*b modulo L (exact integer arithmetic, every b below 2^256)", congruent_small_(T, O, 8 * AIDX + 14));
    VREACH("hf_mul_01");
}
void hf_reduce(void)
{
    VIN_GET();
    unsigned char s[64]; int i; for (i = 0; i < 64; i++) s[i] = i < RB ? vin.s[i] : 0;
    bv T = le_(s, 64), O;
    sc25519_reduce(s);
    O = le_(s, 32);
#ifndef VNATIVE
    VASSERT("sc25519_reduce(s): the result is below the group order L", O < order_());
#else
    VASSERT("sc25519_reduce(s): the result is below the group order L", below_order_(s));
#endif
    VASSERT("and congruent to s modulo L (exact integer arithmetic)", congruent_small_(T, O, 8 * RB - 252 + 1));
    VREACH("hf_reduce");
}
VNATIVE_MAIN(VENTRY)
