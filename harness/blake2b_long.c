/* blake2b_long = H' of RFC 9106 section 3.3 over BLAKE2b as assumed callee (C08): T <= 64: one BLAKE2b-T over
 * LE32(T) || A ; otherwise V1 = BLAKE2b-64(LE32(T) || A), V(i+1) = BLAKE2b-64(V(i)), output = 32-byte halves of
 * V1 .. V(r) followed by the whole last block V(r+1) of T - 32r bytes. */
#include "vharness.h"
#include <stdlib.h>
#include <string.h>
#define V_STUB_MEMZERO 1
#define V_MEMZERO_SILENT 1
#include "transcript.h"
#include "crypto_generichash_blake2b.h"
#ifndef OUTL
# define OUTL 64
#endif
#define ND ((OUTL + 31) / 32 + 2)                  /* number of chained hash values the harness can script */
struct vin_t { size_t inlen; unsigned char d[ND][64]; };
struct vin_t nondet_vin(void);
struct vin_t vin;
static unsigned ninit, nupd, nfin, none; static size_t init_out, upd_len[3], fin_len, one_out[ND], one_in[ND]; static const void *upd_ptr[3]; static uint32_t le_first; static unsigned nd; static int chain_ok = 1; static unsigned char last_v[64];
int crypto_generichash_blake2b_init(crypto_generichash_blake2b_state *s, const unsigned char *key, const size_t keylen, const size_t outlen) { (void) s; if (key != NULL || keylen != 0) chain_ok = 0; ninit++; init_out = outlen; return 0; }
int crypto_generichash_blake2b_update(crypto_generichash_blake2b_state *s, const unsigned char *in, unsigned long long inlen) { (void) s; if (nupd < 3) { upd_ptr[nupd] = in; upd_len[nupd] = inlen; if (nupd == 0 && inlen == 4) le_first = in[0] | (in[1] << 8) | (in[2] << 16) | ((uint32_t) in[3] << 24); } nupd++; return 0; }
int crypto_generichash_blake2b_final(crypto_generichash_blake2b_state *s, unsigned char *out, const size_t outlen) { (void) s; nfin++; fin_len = outlen; memcpy(out, vin.d[0], outlen <= 64 ? outlen : 64); memcpy(last_v, vin.d[0], 64); nd = 1; return 0; }
int crypto_generichash_blake2b(unsigned char *out, size_t outlen, const unsigned char *in, unsigned long long inlen, const unsigned char *key, size_t keylen)
{
    if (key != NULL || keylen != 0 || inlen != 64 || !v_eq(in, last_v, 64)) chain_ok = 0;      /* V(i+1) = H(V(i)) */
    if (none < ND) { one_out[none] = outlen; one_in[none] = inlen; } none++;
    memcpy(out, vin.d[nd < ND ? nd : ND - 1], outlen <= 64 ? outlen : 64); memcpy(last_v, vin.d[nd < ND ? nd : ND - 1], 64); nd++;
    return 0;
}
#include "crypto_pwhash/argon2/blake2b-long.c"
void hf_blake2b_long(void)
{
    VIN_GET();
    VASSUME(vin.inlen <= 4096);
    unsigned char *in = malloc(vin.inlen ? vin.inlen : 1), out[OUTL]; int r, ok = 1; size_t i, pos, r32, k;
#ifndef VNATIVE
    __CPROVER_assume(in != NULL);
#endif
    r = blake2b_long(out, OUTL, in, vin.inlen);
    VASSERT("first block hashes LE32(T) || input", r >= 0 && ninit == 1 && nupd == 2 && upd_len[0] == 4 && le_first == OUTL && upd_ptr[1] == in && upd_len[1] == vin.inlen && nfin == 1 && chain_ok);
#if OUTL <= 64
    VASSERT("T <= 64: a single BLAKE2b of exactly T bytes is the result", init_out == OUTL && fin_len == OUTL && none == 0 && v_eq(out, vin.d[0], OUTL));
#else
    r32 = (OUTL + 31) / 32 - 2;                       /* number of 32-byte halves taken from V1..Vr */
    VASSERT("T > 64: V1 is a 64-byte BLAKE2b", init_out == 64 && fin_len == 64);
    for (k = 0; k < r32; k++) for (i = 0; i < 32; i++) if (out[32 * k + i] != vin.d[k][i]) ok = 0;
    pos = 32 * r32;
    for (i = 0; pos + i < OUTL; i++) if (out[pos + i] != vin.d[r32][i]) ok = 0;
    VASSERT("output = first halves of V1..Vr followed by the last block of T - 32r bytes, each V(i+1) = BLAKE2b(V(i))", ok && none == r32 && one_out[r32 - 1] == OUTL - 32 * r32);
#endif
    VREACH("hf_blake2b_long");
}
VNATIVE_MAIN(VENTRY)
