/* generic front ends of the hash / MAC / KDF family (C04): crypto_auth.c, crypto_shorthash.c, crypto_hash.c, crypto_kdf.c are a
 * pure forwarding layer - each entry point calls its documented primitive exactly once with the caller's arguments unchanged
 * and in order, and returns that primitive's verdict (the primitives are logging stubs here; their own obligations: c04.f.*). */
#include "vharness.h"
#include <stdlib.h>
#include <string.h>
#include "transcript.h"
#include "crypto_auth.h"
#include "crypto_shorthash.h"
#include "crypto_hash.h"
#include "crypto_kdf.h"
#include "randombytes.h"
struct vin_t { unsigned long long len; size_t sublen; uint64_t id; int ret; };
struct vin_t nondet_vin(void);
struct vin_t vin;
static int n_call, which; static const void *a0, *a1, *a2; static unsigned long long alen; static size_t asub; static uint64_t aid;
#define REC(w, p0, p1, p2, l) do { n_call++; which = (w); a0 = (p0); a1 = (p1); a2 = (p2); alen = (l); } while (0)
int crypto_auth_hmacsha512256(unsigned char *out, const unsigned char *in, unsigned long long inlen, const unsigned char *k) { REC(1, out, in, k, inlen); return vin.ret; }
int crypto_auth_hmacsha512256_verify(const unsigned char *h, const unsigned char *in, unsigned long long inlen, const unsigned char *k) { REC(2, h, in, k, inlen); return vin.ret; }
int crypto_shorthash_siphash24(unsigned char *out, const unsigned char *in, unsigned long long inlen, const unsigned char *k) { REC(3, out, in, k, inlen); return vin.ret; }
int crypto_hash_sha512(unsigned char *out, const unsigned char *in, unsigned long long inlen) { REC(4, out, in, NULL, inlen); return vin.ret; }
int crypto_kdf_blake2b_derive_from_key(unsigned char *subkey, size_t subkey_len, uint64_t subkey_id, const char ctx[crypto_kdf_blake2b_CONTEXTBYTES], const unsigned char key[crypto_kdf_blake2b_KEYBYTES])
{ REC(5, subkey, ctx, key, 0); asub = subkey_len; aid = subkey_id; return vin.ret; }
void randombytes_buf(void *const buf, const size_t size) { REC(6, buf, NULL, NULL, size); }
#include "crypto_auth/crypto_auth.c"
#include "crypto_shorthash/crypto_shorthash.c"
#include "crypto_hash/crypto_hash.c"
#include "crypto_kdf/crypto_kdf.c"
#define FWD(w, p0, p1, p2, l) (n_call == 1 && which == (w) && a0 == (const void *) (p0) && a1 == (const void *) (p1) && a2 == (const void *) (p2) && alen == (l))
void hf_generic_c04(void)
{
    VIN_GET();
    unsigned char A[4], B[4], C[4]; char ctx[8]; unsigned long long n = vin.len; int r;
    n_call = 0; r = crypto_auth(A, B, n, C);           VASSERT("crypto_auth = HMAC-SHA-512-256 on (out, in, inlen, k)", FWD(1, A, B, C, n) && r == vin.ret);
    n_call = 0; r = crypto_auth_verify(A, B, n, C);    VASSERT("crypto_auth_verify returns the HMAC-SHA-512-256 verification verdict for (h, in, inlen, k)", FWD(2, A, B, C, n) && r == vin.ret);
    n_call = 0; r = crypto_shorthash(A, B, n, C);      VASSERT("crypto_shorthash = SipHash-2-4 on (out, in, inlen, k)", FWD(3, A, B, C, n) && r == vin.ret);
    n_call = 0; r = crypto_hash(A, B, n);              VASSERT("crypto_hash = SHA-512 on (out, in, inlen)", FWD(4, A, B, NULL, n) && r == vin.ret);
    n_call = 0; r = crypto_kdf_derive_from_key(A, vin.sublen, vin.id, ctx, C);
    VASSERT("crypto_kdf_derive_from_key = the BLAKE2b KDF on (subkey, subkey_len, all 64 bits of subkey_id, ctx, key)", FWD(5, A, ctx, C, 0) && asub == vin.sublen && aid == vin.id && r == vin.ret);
    n_call = 0; crypto_auth_keygen(A);                 VASSERT("crypto_auth_keygen draws 32 bytes", FWD(6, A, NULL, NULL, 32));
    n_call = 0; crypto_shorthash_keygen(A);            VASSERT("crypto_shorthash_keygen draws 16 bytes", FWD(6, A, NULL, NULL, 16));
    n_call = 0; crypto_kdf_keygen(A);                  VASSERT("crypto_kdf_keygen draws 32 bytes", FWD(6, A, NULL, NULL, 32));
    VASSERT("size accessors", crypto_auth_bytes() == 32 && crypto_auth_keybytes() == 32 && crypto_shorthash_bytes() == 8 && crypto_shorthash_keybytes() == 16 && crypto_hash_bytes() == 64 &&
            crypto_kdf_bytes_min() == 16 && crypto_kdf_bytes_max() == 64 && crypto_kdf_contextbytes() == 8 && crypto_kdf_keybytes() == 32);
    VREACH("hf_generic_c04");
}
VNATIVE_MAIN(VENTRY)
