/* Salsa20 reference streaming (crypto_stream/salsa20/ref/salsa20_ref.c) with the core as an assumed callee (its
 * equality with the specification is c03.f.core.salsa20): block i of the stream is core(n || le64(ic + i), k), the
 * XOR form is m XOR stream, only mlen bytes are written, the 64-bit counter carries across all 8 bytes. */
#include "vharness.h"
#include <stdlib.h>
#define V_STUB_MEMZERO 1
#define V_MEMZERO_SILENT 1
#include "transcript.h"
#ifndef VBLKS
# define VBLKS 3
#endif
#define VLEN (64 * VBLKS)
struct vin_t { unsigned long long mlen; uint64_t ic; unsigned char n[8], k[32], m[VLEN], blocks[VBLKS][64]; int use_xor; };
struct vin_t nondet_vin(void);
struct vin_t vin;
VMISUSE_DEFINE
static unsigned n_core; static int core_args_ok = 1;
#ifndef SVAR
# define SVAR 0      /* 0 = Salsa20 (salsa20_ref.c), 1 = Salsa20/12 (stream_salsa2012_ref.c), 2 = Salsa20/8 (stream_salsa208_ref.c) */
#endif
#if SVAR == 0
# define CORE_FN crypto_core_salsa20
#elif SVAR == 1
# define CORE_FN crypto_core_salsa2012
#else
# define CORE_FN crypto_core_salsa208
#endif
int CORE_FN(unsigned char *out, const unsigned char *in, const unsigned char *k, const unsigned char *c)
{
    int i; uint64_t ctr = 0;
    for (i = 7; i >= 0; i--) ctr = (ctr << 8) | in[8 + i];
    if (!(v_eq(in, vin.n, 8) && ctr == vin.ic + n_core && v_eq(k, vin.k, 32) && c == NULL && n_core < VBLKS)) core_args_ok = 0;
    for (i = 0; i < 64; i++) out[i] = vin.blocks[n_core < VBLKS ? n_core : 0][i];
    n_core++;
    return 0;
}
#if SVAR == 0
# include "crypto_stream/salsa20/ref/salsa20_ref.c"
# define STREAM(c, l, n, k) stream_ref(c, l, n, k)
# define STREAM_XOR(c, m, l, n, ic, k) stream_ref_xor_ic(c, m, l, n, ic, k)
#elif SVAR == 1
# include "crypto_stream/salsa2012/ref/stream_salsa2012_ref.c"
# define STREAM(c, l, n, k) crypto_stream_salsa2012(c, l, n, k)
# define STREAM_XOR(c, m, l, n, ic, k) crypto_stream_salsa2012_xor(c, m, l, n, k)
#else
# include "crypto_stream/salsa208/ref/stream_salsa208_ref.c"
# define STREAM(c, l, n, k) crypto_stream_salsa208(c, l, n, k)
# define STREAM_XOR(c, m, l, n, ic, k) crypto_stream_salsa208_xor(c, m, l, n, k)
#endif

void hb_stream(void)
{
    VIN_GET();
#ifdef NB
    vin.mlen = NB;               /* constant length: every loop bound is concrete */
#endif
    VASSUME(vin.mlen <= VLEN);
    unsigned char out[VLEN + 8], min[VLEN]; unsigned long long i; int ok = 1;
    for (i = 0; i < VLEN; i++) min[i] = vin.m[i];
    for (i = 0; i < VLEN + 8; i++) out[i] = 0xA5;
    n_core = 0; core_args_ok = 1;
#if SVAR != 0
    VASSUME(vin.ic == 0);                                    /* these two ciphers have no initial-counter form */
#endif
    if (vin.use_xor) STREAM_XOR(out, min, vin.mlen, vin.n, vin.ic, vin.k);
    else { VASSUME(vin.ic == 0); STREAM(out, vin.mlen, vin.n, vin.k); }
    VASSERT("block i is computed from nonce || le64(ic + i) under the key, default constant", core_args_ok && n_core == (vin.mlen + 63) / 64);
    for (i = 0; i < vin.mlen; i++) if (out[i] != (unsigned char) ((vin.use_xor ? vin.m[i] : 0) ^ vin.blocks[i / 64][i % 64])) ok = 0;
    VASSERT("output = (message XOR) keystream, block after block", ok);
    ok = 1; for (i = vin.mlen; i < VLEN + 8; i++) if (out[i] != 0xA5) ok = 0;
    VASSERT("nothing written beyond the requested length", ok);
    VREACH("hb_stream");
}
VNATIVE_MAIN(VENTRY)
