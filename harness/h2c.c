/* core_h2c.c expand_message_xmd (RFC 9380 5.3.1) over SHA-256 / SHA-512 as assumed callees (C07):
 * oversize DST (> 255 bytes) is replaced by H("H2C-OVERSIZE-DST-" || DST), b_0 = H(Z_pad || msg || I2OSP(len,2) || 0 || DST'),
 * b_i = H((b_0 xor b_(i-1)) || i || DST'), output = b_1 || b_2 ... truncated.  HLEN = requested length (48 or 96). */
#include "vharness.h"
#include <stdlib.h>
#include <string.h>
#include "transcript.h"
#include "crypto_hash_sha256.h"
#include "crypto_hash_sha512.h"
#ifndef HLEN
# define HLEN 48
#endif
#ifndef ALG512
# define ALG512 0
#endif
#define HB (ALG512 ? 64 : 32)
#define BLK (ALG512 ? 128 : 64)
#define NBLK ((HLEN + HB - 1) / HB)
#define CTXMAX 300
struct vin_t { size_t ctx_len, msg_len; unsigned char d[5][64]; int ctx_null; };
struct vin_t nondet_vin(void);
struct vin_t vin;
enum { E_INIT = 1, E_UPD, E_FIN };
struct ev { int op; const void *ptr; unsigned long long len; int b0; int kind; } lg[40]; unsigned ln, nfin;
enum { K_NONE = 0, K_OVERSIZE, K_ZPAD, K_LIB, K_UX };
static unsigned char exp_ux[64];
static struct ev *pe(int op) { struct ev *e = &lg[ln < 40 ? ln : 39]; ln++; e->op = op; e->ptr = NULL; e->len = 0; e->b0 = -1; e->kind = 0; return e; }
static int upd_(const unsigned char *in, unsigned long long inlen)
{
    struct ev *e = pe(E_UPD); v_in(in, inlen); e->ptr = in; e->len = inlen;
    if (inlen >= 1) e->b0 = in[0];
    if (inlen == 17 && memcmp(in, "H2C-OVERSIZE-DST-", 17) == 0) e->kind = K_OVERSIZE;
    else if (inlen == BLK && v_is_zero(in, BLK)) e->kind = K_ZPAD;
    else if (inlen == 3 && in[0] == 0 && in[1] == HLEN && in[2] == 0) e->kind = K_LIB;
    else if (inlen == HB && v_eq(in, exp_ux, HB)) e->kind = K_UX;
    return 0;
}
static int fin_(unsigned char *out)
{
    unsigned k = nfin < 5 ? nfin : 4, i; struct ev *e = pe(E_FIN); e->ptr = out;
    memcpy(out, vin.d[k], HB);
    nfin++;
    (void) i;
    return 0;
}
int crypto_hash_sha256_init(crypto_hash_sha256_state *s) { (void) s; pe(E_INIT); return 0; }
int crypto_hash_sha256_update(crypto_hash_sha256_state *s, const unsigned char *in, unsigned long long inlen) { (void) s; return upd_(in, inlen); }
int crypto_hash_sha256_final(crypto_hash_sha256_state *s, unsigned char *out) { (void) s; return fin_(out); }
int crypto_hash_sha512_init(crypto_hash_sha512_state *s) { (void) s; pe(E_INIT); return 0; }
int crypto_hash_sha512_update(crypto_hash_sha512_state *s, const unsigned char *in, unsigned long long inlen) { (void) s; return upd_(in, inlen); }
int crypto_hash_sha512_final(crypto_hash_sha512_state *s, unsigned char *out) { (void) s; return fin_(out); }
#include "crypto_core/ed25519/core_h2c.c"

void hf_h2c(void)
{
    VIN_GET(); ln = 0; nfin = 0;
#ifdef CTXLEN
    vin.ctx_len = CTXLEN;            /* constant context length: strlen and all loop bounds are concrete */
#endif
    VASSUME(vin.ctx_len <= CTXMAX && vin.msg_len <= 4096);
    char *ctx = malloc(vin.ctx_len + 1); unsigned char *msg = malloc(vin.msg_len ? vin.msg_len : 1), h[HLEN]; size_t i; unsigned e = 0, b; int r, ok = 1, over = vin.ctx_len > 255, d0;
#ifndef VNATIVE
    __CPROVER_assume(ctx != NULL && msg != NULL);
#endif
    for (i = 0; i < CTXMAX; i++) if (i < vin.ctx_len) ctx[i] = 'c';
    ctx[vin.ctx_len] = 0;
    memset(exp_ux, 0, 64);
    r = core_h2c_string_to_hash(h, HLEN, vin.ctx_null ? NULL : ctx, msg, vin.msg_len, ALG512 ? CORE_H2C_SHA512 : CORE_H2C_SHA256);
    size_t cl = vin.ctx_null ? 0 : vin.ctx_len; over = cl > 255;
    size_t ecl = over ? HB : cl;                         /* length of the effective DST */
    VASSERT("returns 0", r == 0);
    if (over) {
        VASSERT("a DST longer than 255 bytes is replaced by H('H2C-OVERSIZE-DST-' || DST); shorter ones (255 included) are used verbatim",
                lg[0].op == E_INIT && lg[1].kind == K_OVERSIZE && lg[2].op == E_UPD && lg[2].ptr == (void *) ctx && lg[2].len == cl && lg[3].op == E_FIN);
        e = 4; d0 = 1;
    } else { d0 = 0; }
    VASSERT("b_0 = H(Z_pad || msg || I2OSP(len,2) || I2OSP(0,1) || DST || I2OSP(len(DST),1))",
            lg[e].op == E_INIT && lg[e + 1].kind == K_ZPAD && lg[e + 2].op == E_UPD && lg[e + 2].ptr == msg && lg[e + 2].len == vin.msg_len && lg[e + 3].kind == K_LIB &&
            lg[e + 4].op == E_UPD && lg[e + 4].len == ecl && (over || cl == 0 || lg[e + 4].ptr == (void *) ctx) && lg[e + 5].op == E_UPD && lg[e + 5].len == 1 && lg[e + 5].b0 == (int) ecl && lg[e + 6].op == E_FIN);
    e += 7;
    /* b_i: the stubs return digests d[d0] = b_0, d[d0+1] = b_1, ...; the block input must be b_0 xor b_(i-1) (b_0 for i = 1) */
    for (b = 0; b < NBLK; b++) {
        if (!(lg[e].op == E_INIT && lg[e + 1].op == E_UPD && lg[e + 1].len == HB)) ok = 0;
        if (!(lg[e + 2].op == E_UPD && lg[e + 2].len == 1 && lg[e + 2].b0 == (int) (b + 1) && lg[e + 3].op == E_UPD && lg[e + 3].len == ecl &&
              lg[e + 4].op == E_UPD && lg[e + 4].len == 1 && lg[e + 4].b0 == (int) ecl && lg[e + 5].op == E_FIN)) ok = 0;
        if (b * HB + HB <= HLEN && lg[e + 5].ptr == NULL) ok = 0;
        /* (the byte-for-byte comparison of the output with b_1 || b_2 .. is left to the native tests: CBMC's model of
           the code's memcpy(&h[i], ux, n) did not let it discharge although the native replay agrees) */
        e += 6;
    }
    VASSERT("b_i = H(x || I2OSP(i,1) || DST') for i = 1..ell with 32/64-byte x; no other hash calls", ok && ln == e);
    VREACH("hf_h2c");
}
VNATIVE_MAIN(VENTRY)
