/* XChaCha20 / XSalsa20 stream wrappers and the ChaCha20 ref entry points' state set-up (C03).  VARX selects the unit. */
#include "vharness.h"
#include <stdlib.h>
#define V_STUB_RANDOMBYTES 1
#define V_STUB_MEMZERO 1
#define V_MEMZERO_SILENT 1
#if VARX == 0
# define V_STUB_CHACHA20 1
# define V_STUB_HCHACHA20 1
#elif VARX == 1
# define V_STUB_SALSA20 1
# define V_STUB_HSALSA20 1
#endif
#include "transcript.h"
#if VARX == 0
# include "crypto_stream/xchacha20/stream_xchacha20.c"
# define XFN(x) crypto_stream_xchacha20##x
# define OPH V_OP_HCHACHA
# define CIPH V_C_CHACHA20
#else
# include "crypto_stream/xsalsa20/stream_xsalsa20.c"
# define XFN(x) crypto_stream_xsalsa20##x
# define OPH V_OP_HSALSA
# define CIPH V_C_SALSA20
#endif
struct vin_t { unsigned long long mlen; uint64_t ic; unsigned char n[24], k[32], hk[32]; int which; };
struct vin_t nondet_vin(void);
struct vin_t vin;
VMISUSE_DEFINE
void hf_xstream(void)
{
    VIN_GET();
    v_nlog = 0; v_subkey = vin.hk; v_ref_key = vin.k; v_ref_na = vin.n; v_ref_nb = vin.n + 16; v_misuse_expected = 0;
    VASSUME(vin.which >= 0 && vin.which <= 2 && vin.mlen <= 65535);
    unsigned char *cb = malloc(vin.mlen ? vin.mlen : 1), *mb = malloc(vin.mlen ? vin.mlen : 1);
#ifndef VNATIVE
    __CPROVER_assume(cb != NULL && mb != NULL);
#endif
    if (vin.which == 0) { VCALL(XFN()(cb, vin.mlen, vin.n, vin.k)); }
    else if (vin.which == 1) { VCALL(XFN(_xor_ic)(cb, mb, vin.mlen, vin.n, vin.ic, vin.k)); }
    else { VCALL(XFN(_xor)(cb, mb, vin.mlen, vin.n, vin.k)); }
    if (VMISUSED()) return;
    VASSERT("sub-key = H(key, nonce[0..16)) with the default constant", v_nlog == 2 && V_EV(0).op == OPH && (V_EV(0).flags & V_F_N_A) && (V_EV(0).flags & V_F_K_USER) && V_EV(0).st == NULL);
    VASSERT("then the inner cipher with nonce[16..24), the sub-key and the caller's counter, same buffers and length",
            V_EV(1).cipher == CIPH && (V_EV(1).flags & V_F_N_B) && (V_EV(1).flags & V_F_K_SUB) && V_EV(1).out == cb && V_EV(1).len == vin.mlen &&
            (vin.which == 0 ? V_EV(1).op == V_OP_STREAM : (V_EV(1).op == V_OP_XOR && V_EV(1).in == mb && V_EV(1).ic == (vin.which == 1 ? vin.ic : 0))));
    VREACH("hf_xstream");
}
VNATIVE_MAIN(VENTRY)
