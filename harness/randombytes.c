/* randombytes.c (C18): bounded-uniform rejection sampling, dispatch to the installed source, deterministic generator.
 * The installed source is a scripted logging stub (its draws come from the harness input record). */
#include "vharness.h"
#include <stdlib.h>
#define V_STUB_CHACHA20 1
#include "transcript.h"
#include "randombytes/randombytes.c"

#ifndef VDRAWS
# define VDRAWS 4
#endif
struct vin_t { uint32_t ub; uint32_t draws[VDRAWS]; uint32_t uret; size_t size; int has_uniform, do_close, close_ret; unsigned char seed[32]; };
struct vin_t nondet_vin(void);
struct vin_t vin;
VMISUSE_DEFINE

/* the installed source */
static unsigned n_random, n_buf, n_uniform, n_stir, n_close; static void *buf_ptr; static size_t buf_size; static uint32_t uniform_arg;
static const char *src_name(void) { return "scripted"; }
static uint32_t src_random(void)
{
    uint32_t r = n_random < VDRAWS ? vin.draws[n_random] : 0xffffffffU;   /* after VDRAWS scripted draws: a value that is always accepted */
    n_random++;
    return r;
}
static void src_stir(void) { n_stir++; }
static uint32_t src_uniform(uint32_t ub) { n_uniform++; uniform_arg = ub; return vin.uret; }
static void src_buf(void *const buf, const size_t size) { n_buf++; buf_ptr = buf; buf_size = size; v_out(buf, size); }
static int src_close(void) { n_close++; return vin.close_ret; }
static randombytes_implementation impl;
/* the default source must never be consulted once another one is installed */
static uint32_t def_random(void) { VASSERT("default source consulted although another source is installed", 0); return 0; }
static void def_buf(void *const buf, const size_t size) { (void) buf; (void) size; VASSERT("default source consulted although another source is installed", 0); }
static const char *def_name(void) { return "sysrandom"; }
struct randombytes_implementation randombytes_sysrandom_implementation = { def_name, def_random, NULL, NULL, def_buf, NULL };

static void install_(void)
{
    impl.implementation_name = src_name; impl.random = src_random; impl.stir = src_stir;
    impl.uniform = vin.has_uniform ? src_uniform : NULL; impl.buf = src_buf; impl.close = src_close;
    n_random = n_buf = n_uniform = n_stir = n_close = 0; v_misuse_expected = 0; v_nlog = 0;
    randombytes_set_implementation(&impl);
}

/* bounded uniform.  The rejection threshold is written with the same expression as the property's "2^32 mod n" is
 * implemented, (1U + ~n) % n, together with the division-free fact (uint64)(1U + ~n) == 2^32 - n for n >= 1; the step
 * (x - n) mod n == x mod n is an elementary paper lemma (a 64-bit divider next to a 32-bit one does not discharge). */
void hb_uniform(void)
{
    VIN_GET(); install_();
    uint32_t ub = vin.ub, r = 12345, min, k; int acc = -1;
#ifdef VUB_CONST
    ub = VUB_CONST;
#endif
#ifdef VUB_ASSUME
    VASSUME(VUB_ASSUME(ub));     /* symbolic 32-bit divisors do not discharge (DESIGN T15): the bound is split into classes */
#endif
    VCALL(r = randombytes_uniform(ub));
    if (VMISUSED()) return;
    if (vin.has_uniform) {
        VASSERT("a source with its own bounded generator is used as is", n_uniform == 1 && uniform_arg == ub && r == vin.uret && n_random == 0);
    } else if (ub < 2) {
        VASSERT("n < 2 gives 0 without drawing", r == 0 && n_random == 0);
    } else {
        min = (1U + ~ub) % ub;
        VASSERT("2^32 - n as a 32-bit value is 1 + ~n", (uint64_t) (uint32_t) (1U + ~ub) == 0x100000000ULL - ub);
        for (k = 0; k < VDRAWS; k++) if (acc < 0 && vin.draws[k] >= min) acc = (int) k;     /* first accepted scripted draw */
        if (acc >= 0) {
            VASSERT("draws below 2^32 mod n are rejected and redrawn; the first accepted draw is used", n_random == (unsigned) acc + 1);
            VASSERT("result = first accepted draw modulo n", r == vin.draws[acc] % ub);
        } else {
            VASSERT("all scripted draws rejected: one more draw taken", n_random == VDRAWS + 1 && r == 0xffffffffU % ub);
        }
        VASSERT("result is below n", r < ub);
    }
    VREACH("hb_uniform");
}

void hf_buf(void)
{
    VIN_GET(); install_();
    VASSUME(vin.size <= 65535);
    unsigned char *b = malloc(vin.size ? vin.size : 1);
#ifndef VNATIVE
    __CPROVER_assume(b != NULL);
#endif
    if (vin.do_close) { int cr = randombytes_close(); VASSERT("close forwards to the installed source", n_close == 1 && cr == vin.close_ret); }
    randombytes_buf(b, vin.size);
    VASSERT("size 0: the source is not called; otherwise exactly one request for (buf, size) to the installed source (also after randombytes_close)",
            vin.size == 0 ? n_buf == 0 : (n_buf == 1 && buf_ptr == b && buf_size == vin.size));
    uint32_t x = randombytes_random();
    VASSERT("randombytes_random = one draw from the installed source", n_random == 1 && x == vin.draws[0]);
    VASSERT("implementation name is the installed one", randombytes_implementation_name() == src_name());
    VREACH("hf_buf");
}

void hf_deterministic(void)
{
    VIN_GET(); install_();
    VASSUME(vin.size <= 65535);
    unsigned char *b = malloc(vin.size ? vin.size : 1); static const unsigned char drg[12] = { 'L', 'i', 'b', 's', 'o', 'd', 'i', 'u', 'm', 'D', 'R', 'G' };
#ifndef VNATIVE
    __CPROVER_assume(b != NULL);
#endif
    v_ref_key = vin.seed; v_ref_na = drg;
    VCALL(randombytes_buf_deterministic(b, vin.size, vin.seed));
    if (VMISUSED()) return;
    VASSERT("deterministic generation = ChaCha20-IETF keystream of that length under nonce 'LibsodiumDRG' and the seed as key; the random source is not used",
            v_nlog == 1 && V_EV(0).op == V_OP_STREAM && V_EV(0).cipher == V_C_CHACHA20_IETF && V_EV(0).out == b && V_EV(0).len == vin.size &&
            (V_EV(0).flags & V_F_N_A) && (V_EV(0).flags & V_F_K_USER) && n_buf == 0 && n_random == 0);
    VREACH("hf_deterministic");
}
void hf_deterministic_toolong(void)
{
    VIN_GET(); install_();
    VASSUME(vin.size > 0x4000000000ULL);
    unsigned char d[8];
    v_misuse_expected = 1;
    VREACH("hf_deterministic_toolong");
    VCALL(randombytes_buf_deterministic(d, vin.size, vin.seed));
}

VNATIVE_MAIN(VENTRY)
