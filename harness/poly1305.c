/* Poly1305 donna (crypto_onetimeauth/poly1305/donna), C04 / C02 / C12.
 *   hf_finish  : final reduction and pad addition of the real poly1305_finish against  ((h mod 2^130-5) + s) mod 2^128
 *                computed on a 200-bit bit-vector, for every accumulator the block function can leave (limb bounds below),
 *                including h in [p, 2^130) and limbs with pending carries.
 *   hf_init    : clamp r &= 0x0ffffffc0ffffffc0ffffffc0fffffff, s = key[16..32)
 *   hb_update  : buffering - the 16-byte blocks handed to poly1305_blocks do not depend on the chunking (blocks = stub)
 *   hf_pad     : finish pads a partial block with 0x01 00.. and sets the final flag
 * The product h*r mod p inside poly1305_blocks is NOT decided (non-linear arithmetic): assumed. */
#include "vharness.h"
#include <stdlib.h>
#include <string.h>
#define V_STUB_MEMZERO 1
#define V_MEMZERO_SILENT 1
#include "transcript.h"
#include "crypto_verify/verify.c"
#include "crypto_onetimeauth/poly1305/donna/poly1305_donna.c"

#ifndef VTOT
# define VTOT 48
#endif
struct vin_t { unsigned long long h[3], pad[2]; unsigned char key[32], msg[VTOT], mac[16]; size_t c1, c2, c3, leftover; unsigned char buf[16]; };
struct vin_t nondet_vin(void);
struct vin_t vin;
VMISUSE_DEFINE

#ifdef VNATIVE
typedef unsigned __int128 wide_t;     /* native replay: limbs are bounded so that H < 2^134 fits 128 bits? no: use two-step below */
#endif

void hf_finish(void)
{
    VIN_GET();
    /* limb bounds: every accumulator poly1305_blocks can leave satisfies h0,h1 < 2^45, h2 < 2^43 (it ends with a carry
       pass leaving h0 < 2^44 + 2^23*5, h1 < 2^44 + 2^20, h2 < 2^42 + 2^20); the bound used here is a superset */
    VASSUME(vin.h[0] < (1ULL << 45) && vin.h[1] < (1ULL << 45) && vin.h[2] < (1ULL << 43));
    poly1305_state_internal_t st; unsigned char mac[16]; int i;
    memset(&st, 0, sizeof st);
    st.h[0] = vin.h[0]; st.h[1] = vin.h[1]; st.h[2] = vin.h[2]; st.pad[0] = vin.pad[0]; st.pad[1] = vin.pad[1]; st.leftover = 0;
    poly1305_finish(&st, mac);
#ifndef VNATIVE
    {
        typedef unsigned __CPROVER_bitvector[200] bv;
        bv H = (bv) vin.h[0] + ((bv) vin.h[1] << 44) + ((bv) vin.h[2] << 88);
        bv P = ((bv) 1 << 130) - 5;
        bv S = (bv) vin.pad[0] + ((bv) vin.pad[1] << 64);
        bv T = ((H % P) + S) & (((bv) 1 << 128) - 1);
        bv M = 0;
        for (i = 15; i >= 0; i--) M = (M << 8) | mac[i];
        VASSERT("tag = ((h mod 2^130-5) + s) mod 2^128, little endian", M == T);
    }
#else
    {
        /* native replay: same formula with 128-bit pieces (H < 2^134: reduce by folding the top bits times 5) */
        unsigned __int128 lo = (unsigned __int128) vin.h[0] + ((unsigned __int128) vin.h[1] << 44) + ((unsigned __int128) (vin.h[2] & 0xffffffffffULL) << 88);
        unsigned long long hi = vin.h[2] >> 40;     /* bits >= 128 */
        /* value = hi*2^128 + lo ; 2^130 = 5 mod p  => fold: value mod p computed with small steps */
        unsigned __int128 v = lo; unsigned long long top = hi; int k;
        for (k = 0; k < 4; k++) {      /* top*2^128 = (top>>2)*2^130 + (top&3)*2^128 */
            unsigned long long q = top >> 2; top &= 3;
            unsigned __int128 add = (unsigned __int128) q * 5; unsigned __int128 nv = v + add; if (nv < v) top += 1; v = nv;
        }
        /* now value = top*2^128 + v with top <= 3: compare with p = 2^130 - 5 = 3*2^128 + (2^128 - 5) */
        if (top == 3 && v >= ((unsigned __int128) 0 - 5)) { v += 5; top = 0; }
        unsigned __int128 S = (unsigned __int128) vin.pad[0] + ((unsigned __int128) vin.pad[1] << 64);
        unsigned __int128 T = v + S, M = 0;
        for (i = 15; i >= 0; i--) M = (M << 8) | mac[i];
        VASSERT("tag = ((h mod 2^130-5) + s) mod 2^128, little endian", M == T);
    }
#endif
    VREACH("hf_finish");
}

void hf_init(void)
{
    VIN_GET();
    poly1305_state_internal_t st; unsigned __int128 r = 0, want; int i;
    poly1305_init(&st, vin.key);
    for (i = 15; i >= 0; i--) r = (r << 8) | vin.key[i];
    want = r & (((unsigned __int128) 0x0ffffffc0ffffffcULL << 64) | 0x0ffffffc0fffffffULL);
    VASSERT("r = key[0..16) clamped as in RFC 8439, split into 44/44/42-bit limbs", st.r[0] < (1ULL << 44) && st.r[1] < (1ULL << 44) && st.r[2] < (1ULL << 42) &&
            ((unsigned __int128) st.r[0] | ((unsigned __int128) st.r[1] << 44) | ((unsigned __int128) st.r[2] << 88)) == want);
    VASSERT("s = key[16..32), accumulator zero, nothing buffered", st.pad[0] == v_le64(vin.key + 16) && st.pad[1] == v_le64(vin.key + 24) && st.h[0] == 0 && st.h[1] == 0 && st.h[2] == 0 && st.leftover == 0 && st.final == 0);
    VREACH("hf_init");
}

/* ---- buffering: poly1305_blocks replaced (goto-instrument --replace-calls) by a stub that records the block bytes ---- */
static unsigned char g_fed[VTOT + 32]; static size_t g_nfed; static int g_final_seen, g_bad_len;
void v_blocks_stub(poly1305_state_internal_t *st, const unsigned char *m, unsigned long long bytes)
{
    unsigned long long i;
    if (bytes % 16 != 0 || bytes == 0) g_bad_len = 1;
    for (i = 0; i < bytes && g_nfed < sizeof g_fed; i++) g_fed[g_nfed++] = m[i];
    g_final_seen = st->final;
}
void hb_update(void)
{
    VIN_GET();
    VASSUME(vin.c1 <= VTOT && vin.c2 <= VTOT && vin.c3 <= VTOT && vin.c1 + vin.c2 + vin.c3 <= VTOT);
    poly1305_state_internal_t st; size_t tot = vin.c1 + vin.c2 + vin.c3, i; int ok = 1;
    memset(&st, 0, sizeof st); g_nfed = 0; g_bad_len = 0;
#ifdef VTWO
    VASSUME(vin.c3 == 0);
#endif
    poly1305_update(&st, vin.msg, vin.c1);
    poly1305_update(&st, vin.msg + vin.c1, vin.c2);
#ifndef VTWO
    poly1305_update(&st, vin.msg + vin.c1 + vin.c2, vin.c3);
#endif
    VASSERT("whole 16-byte blocks only are handed to the block function", !g_bad_len);
    VASSERT("exactly the complete blocks of the concatenated message were processed, the rest is buffered", g_nfed == (tot & ~(size_t) 15) && st.leftover == (tot & 15));
    for (i = 0; i < g_nfed; i++) if (g_fed[i] != vin.msg[i]) ok = 0;
    for (i = 0; i < st.leftover; i++) if (st.buffer[i] != vin.msg[g_nfed + i]) ok = 0;
    VASSERT("block bytes and buffered bytes are the message bytes in order, whatever the chunking (empty chunks included)", ok);
    VREACH("hb_update");
}
void hf_pad(void)
{
    VIN_GET();
    VASSUME(vin.leftover >= 1 && vin.leftover <= 15);
    poly1305_state_internal_t st; unsigned char mac[16]; size_t i; int ok = 1;
    memset(&st, 0, sizeof st); g_nfed = 0; g_bad_len = 0; g_final_seen = 0;
    st.leftover = vin.leftover; for (i = 0; i < 16; i++) st.buffer[i] = vin.buf[i];
    poly1305_finish(&st, mac);
    for (i = 0; i < 16; i++) if (g_fed[i] != (i < vin.leftover ? vin.buf[i] : (i == vin.leftover ? 1 : 0))) ok = 0;
    VASSERT("a final partial block is padded with 0x01 then zeros and processed with the final flag (no 2^128 bit)", g_nfed == 16 && ok && g_final_seen == 1 && !g_bad_len);
    VREACH("hf_pad");
}

void hf_verify(void)
{
    VIN_GET();
    unsigned char correct[16]; int r;
    crypto_onetimeauth_poly1305_donna(correct, vin.msg, 0, vin.key);
    r = crypto_onetimeauth_poly1305_donna_verify(vin.mac, vin.msg, 0, vin.key);
    VASSERT("verify returns 0 exactly when the given tag equals the computed tag in all 16 bytes, -1 otherwise", r == (v_eq(vin.mac, correct, 16) ? 0 : -1));
    VREACH("hf_verify");
}
VNATIVE_MAIN(VENTRY)
