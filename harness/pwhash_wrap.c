/* crypto_pwhash_argon2id / argon2i API wrappers (C08, C18, C12): parameter limits, forwarding, needs_rehash semantics.
 * The Argon2 core entry points and the string decoder are assumed callees here. */
#include "vharness.h"
#include <stdlib.h>
#include <string.h>
#include <errno.h>
#include "transcript.h"
#include "crypto_pwhash/argon2/argon2.h"
#include "crypto_pwhash/argon2/argon2-encoding.h"
struct vin_t { unsigned long long outlen, passwdlen, opslimit; size_t memlimit, slen; int alg, core_ret, dec_ret, ver_ret; uint32_t dec_t, dec_m; };
struct vin_t nondet_vin(void);
struct vin_t vin;
VMISUSE_DEFINE
static int n_raw, n_enc, n_ver, n_dec, n_rand; static uint32_t c_t, c_m, c_p; static const void *c_pwd, *c_salt, *c_hash, *c_enc, *r_ptr; static size_t c_pwdlen, c_saltlen, c_hashlen, c_enclen, r_len; static int c_type;
static int raw_(int type, const uint32_t t, const uint32_t m, const uint32_t p, const void *pwd, const size_t pwdlen, const void *salt, const size_t saltlen, void *hash, const size_t hashlen)
{ n_raw++; c_type = type; c_t = t; c_m = m; c_p = p; c_pwd = pwd; c_pwdlen = pwdlen; c_salt = salt; c_saltlen = saltlen; c_hash = hash; c_hashlen = hashlen; return vin.core_ret ? ARGON2_MEMORY_ALLOCATION_ERROR : ARGON2_OK; }
static int enc_(int type, const uint32_t t, const uint32_t m, const uint32_t p, const void *pwd, const size_t pwdlen, const void *salt, const size_t saltlen, const size_t hashlen, char *encoded, const size_t encodedlen)
{ n_enc++; c_type = type; c_t = t; c_m = m; c_p = p; c_pwd = pwd; c_pwdlen = pwdlen; c_salt = salt; c_saltlen = saltlen; c_hashlen = hashlen; c_enc = encoded; c_enclen = encodedlen; return vin.core_ret ? ARGON2_MEMORY_ALLOCATION_ERROR : ARGON2_OK; }
int argon2id_hash_raw(const uint32_t t, const uint32_t m, const uint32_t p, const void *pwd, const size_t pwdlen, const void *salt, const size_t saltlen, void *hash, const size_t hashlen) { return raw_(2, t, m, p, pwd, pwdlen, salt, saltlen, hash, hashlen); }
int argon2i_hash_raw(const uint32_t t, const uint32_t m, const uint32_t p, const void *pwd, const size_t pwdlen, const void *salt, const size_t saltlen, void *hash, const size_t hashlen) { return raw_(1, t, m, p, pwd, pwdlen, salt, saltlen, hash, hashlen); }
int argon2id_hash_encoded(const uint32_t t, const uint32_t m, const uint32_t p, const void *pwd, const size_t pwdlen, const void *salt, const size_t saltlen, const size_t hashlen, char *encoded, const size_t encodedlen) { return enc_(2, t, m, p, pwd, pwdlen, salt, saltlen, hashlen, encoded, encodedlen); }
int argon2i_hash_encoded(const uint32_t t, const uint32_t m, const uint32_t p, const void *pwd, const size_t pwdlen, const void *salt, const size_t saltlen, const size_t hashlen, char *encoded, const size_t encodedlen) { return enc_(1, t, m, p, pwd, pwdlen, salt, saltlen, hashlen, encoded, encodedlen); }
static int ver_(const char *encoded, const void *pwd, const size_t pwdlen) { n_ver++; c_enc = encoded; c_pwd = pwd; c_pwdlen = pwdlen; return vin.ver_ret == 0 ? ARGON2_OK : (vin.ver_ret == 1 ? ARGON2_VERIFY_MISMATCH : ARGON2_DECODING_FAIL); }
int argon2id_verify(const char *encoded, const void *pwd, const size_t pwdlen) { c_type = 2; return ver_(encoded, pwd, pwdlen); }
int argon2i_verify(const char *encoded, const void *pwd, const size_t pwdlen) { c_type = 1; return ver_(encoded, pwd, pwdlen); }
int argon2_decode_string(argon2_context *ctx, const char *str, argon2_type type) { (void) str; n_dec++; c_type = type; if (vin.dec_ret) return ARGON2_DECODING_FAIL; ctx->t_cost = vin.dec_t; ctx->m_cost = vin.dec_m; return ARGON2_OK; }
void randombytes_buf(void *const buf, const size_t size) { n_rand++; r_ptr = buf; r_len = size; v_out(buf, size); }
#if VARI
# include "crypto_pwhash/argon2/pwhash_argon2i.c"
# define PFN(x) crypto_pwhash_argon2i##x
# define TYPE 1
# define ALGID crypto_pwhash_argon2i_ALG_ARGON2I13
#else
# include "crypto_pwhash/argon2/pwhash_argon2id.c"
# define PFN(x) crypto_pwhash_argon2id##x
# define TYPE 2
# define ALGID crypto_pwhash_argon2id_ALG_ARGON2ID13
#endif
static void reset_(void) { n_raw = n_enc = n_ver = n_dec = n_rand = 0; errno = 0; }
static int limits_bad_(void)
{
    return vin.passwdlen > PFN(_PASSWD_MAX) || vin.opslimit > PFN(_OPSLIMIT_MAX) || vin.memlimit > PFN(_MEMLIMIT_MAX) || vin.opslimit < PFN(_OPSLIMIT_MIN) || vin.memlimit < PFN(_MEMLIMIT_MIN);
}

void hf_raw(void)
{
    VIN_GET(); reset_();
    VASSUME(vin.outlen <= 128);
    unsigned char *out = malloc(vin.outlen ? vin.outlen : 1), salt[16]; char pw[4]; int r, bad;
#ifndef VNATIVE
    __CPROVER_assume(out != NULL);
#endif
    r = PFN()(out, vin.outlen, pw, vin.passwdlen, salt, vin.opslimit, vin.memlimit, vin.alg);
    bad = vin.outlen < PFN(_BYTES_MIN) || limits_bad_() || vin.alg != ALGID;
    if (bad) { VASSERT("out-of-range output length, password length, opslimit, memlimit or algorithm => -1 with errno EINVAL/EFBIG and the core is not invoked", r == -1 && n_raw == 0 && (errno == EINVAL || errno == EFBIG)); }
    else {
        VASSERT("in-range request: one core call with t = opslimit, m = memlimit/1024 KiB, one lane, 16-byte salt, the caller's buffers", n_raw == 1 && c_type == TYPE && c_t == (uint32_t) vin.opslimit && c_m == (uint32_t) (vin.memlimit / 1024U) && c_p == 1 &&
                c_pwd == (void *) pw && c_pwdlen == vin.passwdlen && c_salt == (void *) salt && c_saltlen == 16 && c_hash == out && c_hashlen == vin.outlen);
        VASSERT("core failure is reported as -1, success as 0", r == (vin.core_ret ? -1 : 0));
    }
    VREACH("hf_raw");
}
void hf_str(void)
{
    VIN_GET(); reset_();
    char out[PFN(_STRBYTES)], pw[4]; int r;
    r = PFN(_str)(out, pw, vin.passwdlen, vin.opslimit, vin.memlimit);
    if (limits_bad_()) { VASSERT("out-of-range limits => -1, nothing hashed, no randomness drawn", r == -1 && n_enc == 0 && n_rand == 0 && (errno == EINVAL || errno == EFBIG)); }
    else VASSERT("hash string: 16 salt bytes from the random source, one encoded-hash call with t, m/1024, one lane, 32-byte tag into the 128-byte output",
                 n_rand == 1 && r_len == 16 && n_enc == 1 && c_type == TYPE && c_salt == r_ptr && c_saltlen == 16 && c_t == (uint32_t) vin.opslimit && c_m == (uint32_t) (vin.memlimit / 1024U) && c_p == 1 &&
                 c_hashlen == 32 && c_enc == (void *) out && c_enclen == PFN(_STRBYTES) && r == (vin.core_ret ? -1 : 0));
    VREACH("hf_str");
}
void hf_str_verify(void)
{
    VIN_GET(); reset_();
    char str[8] = "$argon2", pw[4]; int r;
    r = PFN(_str_verify)(str, pw, vin.passwdlen);
    if (vin.passwdlen > PFN(_PASSWD_MAX)) VASSERT("over-long password => -1 without verifying", r == -1 && n_ver == 0);
    else VASSERT("verification succeeds (0) exactly when the core reports a match; mismatch, malformed string or any error => -1", n_ver == 1 && c_type == TYPE && c_enc == (void *) str && c_pwdlen == vin.passwdlen && r == (vin.ver_ret == 0 ? 0 : -1));
    VREACH("hf_str_verify");
}
#if VARI
void hf_needs_rehash(void)
{
    VIN_GET(); reset_();
    VASSUME(vin.slen >= 1 && vin.slen <= 130 && (vin.alg == 0 || vin.alg == 1));   /* (an empty string makes calloc(0) implementation defined) */
    char *str = malloc(vin.slen + 1); size_t i; int r;
#ifndef VNATIVE
    __CPROVER_assume(str != NULL);
#endif
    for (i = 0; i < 130; i++) if (i < vin.slen) str[i] = 'x';
    str[vin.slen] = 0;
    r = vin.alg ? crypto_pwhash_argon2id_str_needs_rehash(str, vin.opslimit, vin.memlimit) : crypto_pwhash_argon2i_str_needs_rehash(str, vin.opslimit, vin.memlimit);
    if (vin.opslimit > UINT32_MAX || vin.memlimit / 1024U > UINT32_MAX || vin.slen >= 128) { VASSERT("limits that cannot be encoded or an over-long string => -1", r == -1 && n_dec == 0); }
    else if (vin.dec_ret) { VASSERT("malformed string => -1", r == -1 && n_dec == 1); }
    else VASSERT("0 exactly when the string's (t, m) equal the requested (opslimit, memlimit/1024), 1 otherwise", n_dec == 1 && c_type == (vin.alg ? 2 : 1) && r == ((vin.dec_t == (uint32_t) vin.opslimit && vin.dec_m == (uint32_t) (vin.memlimit / 1024U)) ? 0 : 1));
    VREACH("hf_needs_rehash");
}
#endif
VNATIVE_MAIN(VENTRY)
