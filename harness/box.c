/* crypto_box easy / detached / open forms and sealed boxes (C01, C02, C18, C12) over beforenm + secretbox (box) resp.
 * box_keypair + BLAKE2b + box_easy (seal) as assumed callees.  PART 0: crypto_box_easy.c, PART 1: crypto_box_seal.c */
#include "vharness.h"
#include <stdlib.h>
#include <string.h>
#define V_STUB_MEMZERO 1
#define V_MEMZERO_SILENT 1
#include "transcript.h"
struct vin_t { unsigned long long mlen, clen; unsigned char kk[32], n[24], pk[32], sk[32], epk[32], esk[32], nonce[24]; int bn_ret, sb_ret, which, m_null; };
struct vin_t nondet_vin(void);
struct vin_t vin;
VMISUSE_DEFINE
static void *buf_(unsigned long long n) { void *p = malloc(n ? n : 1);
#ifndef VNATIVE
    __CPROVER_assume(p != NULL);
#endif
    return p; }
#if PART == 0
#include "crypto_box.h"
#include "crypto_secretbox.h"
static int n_bn, n_sb; static const void *bn_pk, *bn_sk, *sb_c, *sb_mac, *sb_m, *sb_n; static unsigned long long sb_len; static int sb_kind, sb_key_ok;
int crypto_box_beforenm(unsigned char *k, const unsigned char *pk, const unsigned char *sk) { n_bn++; bn_pk = pk; bn_sk = sk; memcpy(k, vin.kk, 32); return vin.bn_ret ? -1 : 0; }
int crypto_secretbox_detached(unsigned char *c, unsigned char *mac, const unsigned char *m, unsigned long long mlen, const unsigned char *n, const unsigned char *k)
{ n_sb++; sb_kind = 1; sb_c = c; sb_mac = mac; sb_m = m; sb_len = mlen; sb_n = n; sb_key_ok = v_eq(k, vin.kk, 32); v_in(m, mlen); v_out(c, mlen); v_out(mac, 16); return 0; }
int crypto_secretbox_open_detached(unsigned char *m, const unsigned char *c, const unsigned char *mac, unsigned long long clen, const unsigned char *n, const unsigned char *k)
{ n_sb++; sb_kind = 2; sb_c = c; sb_mac = mac; sb_m = m; sb_len = clen; sb_n = n; sb_key_ok = v_eq(k, vin.kk, 32); v_in(c, clen); v_in(mac, 16); if (m != NULL && !vin.sb_ret) v_out(m, clen); return vin.sb_ret ? -1 : 0; }
#include "crypto_box/crypto_box_easy.c"
void hf_box_seal_forms(void)      /* easy / detached sealing */
{
    VIN_GET(); n_bn = n_sb = 0; v_misuse_expected = 0;
    VASSUME(vin.mlen <= 65535 && (vin.which == 0 || vin.which == 1));
    unsigned char *m = buf_(vin.mlen), *c = buf_(vin.mlen + 16), mac[16]; int r;
    if (vin.which == 0) { VCALL(r = crypto_box_easy(c, m, vin.mlen, vin.n, vin.pk, vin.sk)); } else { VCALL(r = crypto_box_detached(c, mac, m, vin.mlen, vin.n, vin.pk, vin.sk)); }
    if (VMISUSED()) return;
    if (vin.bn_ret) VASSERT("a failing key agreement (low-order peer key) makes the box fail without encrypting", r == -1 && n_sb == 0);
    else VASSERT("box = secretbox under the precomputed key beforenm(pk, sk), same nonce and buffers (easy: output mac || ciphertext)",
                 r == 0 && n_bn == 1 && bn_pk == vin.pk && bn_sk == vin.sk && n_sb == 1 && sb_kind == 1 && sb_key_ok && sb_n == vin.n && sb_m == m && sb_len == vin.mlen &&
                 (vin.which == 0 ? (sb_c == c + 16 && sb_mac == c) : (sb_c == c && sb_mac == mac)));
    VREACH("hf_box_seal_forms");
}
void hf_box_open_forms(void)
{
    VIN_GET(); n_bn = n_sb = 0; v_misuse_expected = 0;
    VASSUME(vin.clen <= 65535 + 16 && (vin.which == 0 || vin.which == 1));
    unsigned long long ml = vin.clen >= 16 ? vin.clen - 16 : 0;
    unsigned char *c = buf_(vin.clen), *m = vin.m_null ? NULL : buf_(vin.which == 0 ? ml : vin.clen), mac[16]; int r;
    if (vin.which == 0) r = crypto_box_open_easy(m, c, vin.clen, vin.n, vin.pk, vin.sk);
    else { VASSUME(vin.clen <= 65535); r = crypto_box_open_detached(m, c, mac, vin.clen, vin.n, vin.pk, vin.sk); }
    if (vin.which == 0 && vin.clen < 16) VASSERT("a box shorter than the authenticator is rejected without any work", r == -1 && n_bn == 0 && n_sb == 0);
    else if (vin.bn_ret) VASSERT("a failing key agreement makes opening fail without decrypting", r == -1 && n_sb == 0);
    else VASSERT("open = secretbox open under beforenm(pk, sk); its verdict is returned unchanged",
                 n_bn == 1 && n_sb == 1 && sb_kind == 2 && sb_key_ok && sb_n == vin.n && sb_m == m && r == (vin.sb_ret ? -1 : 0) &&
                 (vin.which == 0 ? (sb_c == c + 16 && sb_mac == c && sb_len == vin.clen - 16) : (sb_c == c && sb_mac == mac && sb_len == vin.clen)));
    VREACH("hf_box_open_forms");
}
void hf_box_easy_toolong(void)
{
    VIN_GET(); v_misuse_expected = 1;
    VASSUME(vin.mlen > crypto_box_MESSAGEBYTES_MAX);
    unsigned char d[32];
    VREACH("hf_box_easy_toolong");
    VCALL(crypto_box_easy(d, d, vin.mlen, vin.n, vin.pk, vin.sk));
}
#else
#include "crypto_box.h"
#include "crypto_generichash.h"
static int n_kp, n_easy, n_open, n_hu; static const void *e_c, *e_m, *e_pk, *e_sk, *hu[3]; static unsigned long long e_len; static size_t h_out, hl[3]; static int e_nonce_ok, e_esk_ok, e_pk_is_c;
int crypto_box_keypair(unsigned char *pk, unsigned char *sk) { n_kp++; memcpy(pk, vin.epk, 32); memcpy(sk, vin.esk, 32); return 0; }
int crypto_generichash_init(crypto_generichash_state *st, const unsigned char *key, const size_t keylen, const size_t outlen) { (void) st; (void) key; n_hu = 0; h_out = outlen + (keylen ? 1000 : 0); return 0; }
int crypto_generichash_update(crypto_generichash_state *st, const unsigned char *in, unsigned long long inlen) { (void) st; if (n_hu < 3) { hu[n_hu] = in; hl[n_hu] = inlen; } n_hu++; return 0; }
int crypto_generichash_final(crypto_generichash_state *st, unsigned char *out, const size_t outlen) { (void) st; memcpy(out, vin.nonce, outlen <= 24 ? outlen : 24); return 0; }
static unsigned char first_hash_in[32];
int crypto_box_easy(unsigned char *c, const unsigned char *m, unsigned long long mlen, const unsigned char *n, const unsigned char *pk, const unsigned char *sk)
{ n_easy++; e_c = c; e_m = m; e_len = mlen; e_pk = pk; e_nonce_ok = v_eq(n, vin.nonce, 24); e_esk_ok = v_eq(sk, vin.esk, 32); v_out(c, mlen + 16); return vin.sb_ret ? -1 : 0; }
int crypto_box_open_easy(unsigned char *m, const unsigned char *c, unsigned long long clen, const unsigned char *n, const unsigned char *pk, const unsigned char *sk)
{ n_open++; e_c = c; e_m = m; e_len = clen; e_pk = pk; e_sk = sk; e_nonce_ok = v_eq(n, vin.nonce, 24); return vin.sb_ret ? -1 : 0; }
#include "crypto_box/crypto_box_seal.c"
void hf_seal(void)
{
    VIN_GET(); n_kp = n_easy = n_open = 0;
    VASSUME(vin.mlen <= 65535);
    unsigned char *m = buf_(vin.mlen), *c = buf_(vin.mlen + 48); int r;
    r = crypto_box_seal(c, m, vin.mlen, vin.pk);
    VASSERT("sealed box = ephemeral public key || box_easy(m, nonce, recipient pk, ephemeral secret key) with a fresh ephemeral key pair",
            n_kp == 1 && n_easy == 1 && e_c == c + 32 && e_m == m && e_len == vin.mlen && e_pk == vin.pk && e_esk_ok && v_eq(c, vin.epk, 32) && r == (vin.sb_ret ? -1 : 0));
    VASSERT("nonce = BLAKE2b-192(ephemeral pk || recipient pk), unkeyed", e_nonce_ok && h_out == 24 && n_hu == 2 && hl[0] == 32 && hl[1] == 32 && hu[1] == vin.pk);
    VREACH("hf_seal");
}
void hf_seal_open(void)
{
    VIN_GET(); n_kp = n_easy = n_open = 0;
    VASSUME(vin.clen <= 65535 + 48);
    unsigned char *c = buf_(vin.clen), *m = buf_(vin.clen >= 48 ? vin.clen - 48 : 0); int r;
    r = crypto_box_seal_open(m, c, vin.clen, vin.pk, vin.sk);
    if (vin.clen < 48) VASSERT("a sealed box shorter than ephemeral key + authenticator is rejected without any work", r == -1 && n_open == 0 && n_hu == 0);
    else VASSERT("seal_open = box_open_easy(c + 32, nonce = BLAKE2b-192(c[0..32) || pk), sender key = c[0..32), recipient sk); its verdict is returned",
                 n_open == 1 && e_c == c + 32 && e_len == vin.clen - 32 && e_pk == c && e_sk == vin.sk && e_m == m && e_nonce_ok && h_out == 24 && n_hu == 2 && hu[0] == c && hl[0] == 32 && hu[1] == vin.pk && hl[1] == 32 && r == (vin.sb_ret ? -1 : 0));
    VREACH("hf_seal_open");
}
#endif
VNATIVE_MAIN(VENTRY)
