/* argon2_decode_string / decode_decimal (C08, C12): numeric fields of attacker-supplied hash strings.
 * The m= field is an arbitrary character sequence of up to 11 characters; the rest of the string is a fixed well-formed
 * template.  Base64 decoding and argon2_validate_inputs are assumed callees (accept). */
#include "vharness.h"
#include <stdlib.h>
#include <string.h>
#include "transcript.h"
#include "crypto_pwhash/argon2/argon2.h"
#include "crypto_pwhash/argon2/argon2-core.h"
#define NF 11
struct vin_t { char f[NF]; size_t flen; int which; uint32_t m, t, p; int type; size_t dst_len; };
struct vin_t nondet_vin(void);
struct vin_t vin;
int sodium_base642bin(unsigned char *const bin, const size_t bin_maxlen, const char *const b64, const size_t b64_len, const char *const ignore, size_t *const bin_len, const char **const b64_end, const int variant)
{
    size_t i = 0; (void) bin; (void) bin_maxlen; (void) ignore; (void) variant;
    while (i < b64_len && b64[i] == 'A') i++;                   /* the template only uses 'A' digits */
    *bin_len = (i * 3) / 4; *b64_end = b64 + i;
    return 0;
}
int argon2_validate_inputs(const argon2_context *context) { (void) context; return ARGON2_OK; }
/* encoder stub: the unpadded Base64 length of bin_len bytes in 'A' digits (its real contract: c15.u.bin2base64) */
char *sodium_bin2base64(char *const b64, const size_t b64_maxlen, const unsigned char *const bin, const size_t bin_len, const int variant)
{ size_t n = (bin_len * 4 + 2) / 3, i; (void) bin; (void) variant; if (b64_maxlen <= n || n > 64) return NULL; for (i = 0; i < 64; i++) if (i < n) b64[i] = 'A'; b64[n] = 0; return b64; }
#include "crypto_pwhash/argon2/argon2-encoding.c"

void hb_decode_field(void)
{
    VIN_GET();
#ifdef FLEN
    vin.flen = FLEN;
#endif
#ifdef WHICH
    vin.which = WHICH;
#endif
    VASSUME(vin.flen <= NF && vin.which >= 0 && vin.which <= 2);
    /* the field is any sequence of characters other than the separators of the format (',' '$' NUL): with those inside,
       the bytes would not be ONE numeric field any more (e.g. "0,p=12$$A" is t=0 followed by a different p, salt and hash) */
    { size_t j; for (j = 0; j < NF; j++) VASSUME(j >= vin.flen || (vin.f[j] != ',' && vin.f[j] != '$' && vin.f[j] != 0)); }
    char s[96]; size_t n = 0, i; const char *pre[3] = { "$argon2id$v=19$m=", ",t=", ",p=" }; argon2_context ctx; unsigned char salt[16], out[32];
    unsigned long long val = 0; int digits = 1, minimal, r; uint32_t got;
    /* build "$argon2id$v=19$m=<F0>,t=<F1>,p=<F2>$AAAAAAAAAAA$AAAAAAAAAAAAAAAAAAAAAA" where the field selected by `which` is symbolic */
    for (int k = 0; k < 3; k++) {
        const char *p = pre[k]; while (*p) s[n++] = *p++;
        if (k == vin.which) { for (i = 0; i < NF; i++) if (i < vin.flen) s[n++] = vin.f[i]; }
        else s[n++] = '3';
    }
    s[n++] = '$'; for (i = 0; i < 11; i++) s[n++] = 'A';
    s[n++] = '$'; for (i = 0; i < 22; i++) s[n++] = 'A';
    s[n] = 0;
    for (i = 0; i < NF; i++) if (i < vin.flen) { if (vin.f[i] < '0' || vin.f[i] > '9') digits = 0; else val = val * 10 + (unsigned) (vin.f[i] - '0'); }
    minimal = vin.flen >= 1 && (vin.f[0] != '0' || vin.flen == 1);
    memset(&ctx, 0, sizeof ctx); ctx.salt = salt; ctx.saltlen = 16; ctx.out = out; ctx.outlen = 32;
    r = argon2_decode_string(&ctx, s, Argon2_id);
    got = vin.which == 0 ? ctx.m_cost : (vin.which == 1 ? ctx.t_cost : ctx.lanes);
    VASSERT("a numeric field is accepted exactly when it is a non-empty, minimal (no leading zero) decimal that fits 32 bits", (r == ARGON2_OK) == (digits && minimal && val <= 0xffffffffULL));
    VASSERT("and then the decoded parameter equals its value (never a value reduced modulo 2^32)", r != ARGON2_OK || got == (uint32_t) val);
    VREACH("hb_decode_field");
}
/* encode then decode: the parameters survive the textual form for every 32-bit value.
 * NOT REGISTERED: the query (symbolic /10, %10 chains against the *10 chains of the decoder) did not finish in 20 minutes. */
void hf_encode_decode(void)
{
    VIN_GET();
#ifdef WHICH
    if (WHICH != 0) vin.m = 65536; if (WHICH != 1) vin.t = 3; if (WHICH != 2) vin.p = 1;     /* one symbolic field per obligation */
#endif
    VASSUME(vin.type == Argon2_i || vin.type == Argon2_id);
    char dst[160]; argon2_context ctx, back; unsigned char salt[16], out[32], salt2[16], out2[32]; int r, r2; size_t len, i, need;
    memset(&ctx, 0, sizeof ctx); memset(salt, 7, 16); memset(out, 9, 32); memset(dst, 0x5a, sizeof dst);
    ctx.salt = salt; ctx.saltlen = 16; ctx.out = out; ctx.outlen = 32; ctx.m_cost = vin.m; ctx.t_cost = vin.t; ctx.lanes = vin.p; ctx.threads = vin.p;
    VASSUME(vin.dst_len <= 128);
    r = argon2_encode_string(dst, vin.dst_len, &ctx, (argon2_type) vin.type);
    if (r == ARGON2_OK) {
        for (len = 0; len < 128 && dst[len] != 0; len++) { }
        VASSERT("the encoded string is NUL terminated inside the buffer and nothing is written beyond dst_len", len < vin.dst_len && dst[vin.dst_len] == 0x5a);
        memset(&back, 0, sizeof back); back.salt = salt2; back.saltlen = 16; back.out = out2; back.outlen = 32;
        r2 = argon2_decode_string(&back, dst, (argon2_type) vin.type);
        VASSERT("decode(encode(m, t, p)) succeeds and returns exactly m, t, p (minimal decimals, no truncation)", r2 == ARGON2_OK && back.m_cost == vin.m && back.t_cost == vin.t && back.lanes == vin.p && back.saltlen == 16 && back.outlen == 32);
    } else {
        VASSERT("the only failure is a buffer too small for the text", r == ARGON2_ENCODING_FAIL && vin.dst_len < 128);
        for (i = vin.dst_len; i < 160; i++) if (dst[i] != 0x5a) r = 12345;
        VASSERT("nothing is written beyond dst_len on failure either", r != 12345);
    }
    (void) need;
    VREACH("hf_encode_decode");
}
VNATIVE_MAIN(VENTRY)
