/* crypto_scalarmult_ed25519 (C07, C12): point validation before multiplication, clamping / no clamping of the scalar
 * handed to the group operation, identity results and the zero scalar reported as errors.  Group ops are assumed. */
#include "vharness.h"
#include <stdlib.h>
#include <string.h>
#include "transcript.h"
#include "private/ed25519_ref10.h"
struct vin_t { unsigned char n[32], p[32], enc[32]; int canon, fb, so, sub, which; };
struct vin_t nondet_vin(void);
struct vin_t vin;
static unsigned char sm_scalar[32]; static int n_sm, n_smb;
int ge25519_is_canonical(const unsigned char *s) { (void) s; return vin.canon != 0; }
int ge25519_frombytes(ge25519_p3 *h, const unsigned char *s) { (void) h; (void) s; return vin.fb ? -1 : 0; }
int ge25519_has_small_order(const ge25519_p3 *p) { (void) p; return vin.so != 0; }
int ge25519_is_on_main_subgroup(const ge25519_p3 *p) { (void) p; return vin.sub != 0; }
void ge25519_scalarmult(ge25519_p3 *h, const unsigned char *a, const ge25519_p3 *p) { (void) h; (void) p; n_sm++; memcpy(sm_scalar, a, 32); }
void ge25519_scalarmult_base(ge25519_p3 *h, const unsigned char *a) { (void) h; n_smb++; memcpy(sm_scalar, a, 32); }
void ge25519_p3_tobytes(unsigned char *s, const ge25519_p3 *h) { (void) h; memcpy(s, vin.enc, 32); }
int sodium_is_zero(const unsigned char *n, const size_t nlen) { return v_is_zero(n, nlen); }   /* exact semantics (C14) */
#include "crypto_scalarmult/ed25519/ref10/scalarmult_ed25519_ref10.c"

void hf_scalarmult(void)
{
    VIN_GET(); n_sm = n_smb = 0;
    VASSUME(vin.which >= 0 && vin.which <= 3);
    unsigned char q[32], want[32]; int r, i, clamp = (vin.which & 1) == 0, base = vin.which >= 2, valid = vin.canon && !vin.fb && !vin.so && vin.sub, inf;
    memset(q, 0xA5, 32);
    r = vin.which == 0 ? crypto_scalarmult_ed25519(q, vin.n, vin.p) : vin.which == 1 ? crypto_scalarmult_ed25519_noclamp(q, vin.n, vin.p) :
        vin.which == 2 ? crypto_scalarmult_ed25519_base(q, vin.n) : crypto_scalarmult_ed25519_base_noclamp(q, vin.n);
    if (!base && !valid) { VASSERT("an invalid point (non-canonical, undecodable, small order or outside the prime-order subgroup) is rejected before any multiplication", r == -1 && n_sm == 0); }
    else {
        for (i = 0; i < 32; i++) want[i] = vin.n[i];
        if (clamp) { want[0] &= 248; want[31] |= 64; }
        want[31] &= 127;
        VASSERT("the scalar handed to the group operation is the caller's scalar, clamped (low 3 bits cleared, bit 254 set) or not, with bit 255 cleared", (base ? n_smb == 1 : n_sm == 1) && v_eq(sm_scalar, want, 32));
        inf = vin.enc[0] == 1 && v_is_zero(vin.enc + 1, 30) && (vin.enc[31] & 0x7f) == 0;
        VASSERT("an identity result or an all-zero scalar is reported as an error, everything else succeeds", r == ((inf || v_is_zero(vin.n, 32)) ? -1 : 0));
        VASSERT("the encoded result is returned", v_eq(q, vin.enc, 32));
    }
    VREACH("hf_scalarmult");
}
VNATIVE_MAIN(VENTRY)
