/* Ed25519 verification (crypto_sign/ed25519/ref10/open.c), C06 / C02 / C12.
 * The strict-verification check set of the real _crypto_sign_ed25519_verify_detached: the group and hash operations are
 * assumed callees (stubs selected by goto-instrument --replace-calls, arbitrary results), while the canonical-encoding
 * tests sc25519_is_canonical and ge25519_is_canonical keep their REAL bodies and are compared with integer arithmetic.
 * Decided: no acceptance path bypasses any check; the hash input order is R || A || M ([dom2] prefix for ph);
 * the final equation is evaluated on (h reduced, A, S) and compared through the small-order test (cofactored). */
#include "vharness.h"
#include <stdlib.h>
#include <string.h>
#ifndef VNATIVE
# define V_STUB_MEMMOVE 1
#endif
#include "transcript.h"
#include "crypto_core/ed25519/ref10/ed25519_ref10.c"
#include "crypto_sign/ed25519/ref10/open.c"

struct vin_t { unsigned char sig[64], pk[32]; unsigned long long mlen, smlen; int prehashed, r_fbn, r_fb, so[3], vret, m_null, lenp_null; unsigned char h[64], mold; size_t gk; unsigned char ov[2 * 96 + 80 + 64 + 8]; };
struct vin_t nondet_vin(void);
struct vin_t vin;
VMISUSE_DEFINE

/* ---- call log ---- */
static unsigned n_so, n_upd, n_fbn, n_fb, n_dsm, n_sub, n_red, n_fin, n_init, n_p2p3; static int g_pre;
static const void *a_fbn_s, *a_fbn_h, *a_fb_s, *a_fb_h, *so_arg[3], *upd_ptr[4], *dsm_r, *dsm_a, *dsm_A, *dsm_b, *sub_r, *sub_p, *sub_q, *red_arg, *fin_out, *p2p3_r, *p2p3_p;
static unsigned long long upd_len[4];
int s_frombytes_negate(ge25519_p3 *h, const unsigned char *s) { n_fbn++; a_fbn_h = h; a_fbn_s = s; return vin.r_fbn ? -1 : 0; }
int s_frombytes(ge25519_p3 *h, const unsigned char *s) { n_fb++; a_fb_h = h; a_fb_s = s; return vin.r_fb ? -1 : 0; }
int s_small_order(const ge25519_p3 *p) { int r = n_so < 3 ? (vin.so[n_so] != 0) : 0; if (n_so < 3) so_arg[n_so] = p; n_so++; return r; }
void s_dsm(ge25519_p2 *r, const unsigned char *a, const ge25519_p3 *A, const unsigned char *b) { n_dsm++; dsm_r = r; dsm_a = a; dsm_A = A; dsm_b = b; }
void s_p2_to_p3(ge25519_p3 *r, const ge25519_p2 *p) { n_p2p3++; p2p3_r = r; p2p3_p = p; }
void s_p3_sub(ge25519_p3 *r, const ge25519_p3 *p, const ge25519_p3 *q) { n_sub++; sub_r = r; sub_p = p; sub_q = q; }
void s_reduce(unsigned char s[64]) { n_red++; red_arg = s; }
void _crypto_sign_ed25519_ref10_hinit(crypto_hash_sha512_state *hs, int prehashed) { (void) hs; n_init++; g_pre = prehashed; }
int crypto_hash_sha512_update(crypto_hash_sha512_state *state, const unsigned char *in, unsigned long long inlen) { (void) state; if (n_upd < 4) { upd_ptr[n_upd] = in; upd_len[n_upd] = inlen; } n_upd++; return 0; }
int crypto_hash_sha512_final(crypto_hash_sha512_state *state, unsigned char *out) { (void) state; n_fin++; fin_out = out; memcpy(out, vin.h, 64); return 0; }

/* little-endian 256-bit comparison a < b */
static int lt256(const unsigned char *a, const unsigned char *b) { int i, lt = 0, decided = 0; for (i = 31; i >= 0; i--) if (!decided && a[i] != b[i]) { lt = a[i] < b[i]; decided = 1; } return lt; }
static const unsigned char ORDER_L[32] = { 0xed, 0xd3, 0xf5, 0x5c, 0x1a, 0x63, 0x12, 0x58, 0xd6, 0x9c, 0xf7, 0xa2, 0xde, 0xf9, 0xde, 0x14, 0, 0, 0, 0, 0, 0, 0, 0, 0, 0, 0, 0, 0, 0, 0, 0x10 };
static const unsigned char FIELD_P[32] = { 0xed, 0xff, 0xff, 0xff, 0xff, 0xff, 0xff, 0xff, 0xff, 0xff, 0xff, 0xff, 0xff, 0xff, 0xff, 0xff, 0xff, 0xff, 0xff, 0xff, 0xff, 0xff, 0xff, 0xff, 0xff, 0xff, 0xff, 0xff, 0xff, 0xff, 0xff, 0x7f };

void hf_is_canonical(void)
{
    VIN_GET();
    unsigned char y[32]; int i;
    VASSERT("sc25519_is_canonical(s) == 1 exactly when the little-endian integer s is below the group order L", sc25519_is_canonical(vin.sig + 32) == lt256(vin.sig + 32, ORDER_L));
    for (i = 0; i < 32; i++) y[i] = vin.pk[i];
    y[31] &= 0x7f;                                          /* the x-sign bit is not part of the y coordinate */
    VASSERT("ge25519_is_canonical(s) == 1 exactly when the encoded y coordinate (255 bits) is below 2^255-19", ge25519_is_canonical(vin.pk) == lt256(y, FIELD_P));
    VREACH("hf_is_canonical");
}

void hf_verify(void)
{
    VIN_GET();
    VASSUME(vin.mlen <= 65535 && (vin.prehashed == 0 || vin.prehashed == 1));
    unsigned char *m = malloc(vin.mlen ? vin.mlen : 1); int r, all_ok;
#ifndef VNATIVE
    __CPROVER_assume(m != NULL);
#endif
    r = _crypto_sign_ed25519_verify_detached(vin.sig, m, vin.mlen, vin.pk, vin.prehashed);
    all_ok = lt256(vin.sig + 32, ORDER_L) && ge25519_is_canonical(vin.pk) && !vin.r_fbn && !vin.so[0] && !vin.r_fb && !vin.so[1] && vin.so[2];
    VASSERT("returns 0 or -1", r == 0 || r == -1);
    VASSERT("accepted only if: S < L, A canonical, A decodes, A not of small order, R decodes, R not of small order, and R - (S*B - h*A) has small order (cofactored equation)", r != 0 || all_ok);
    VASSERT("accepted whenever all of these checks pass", !all_ok || r == 0);
    if (r == 0) {
        VASSERT("A is decoded from the public key, R from the first half of the signature; both are tested for small order", n_fbn == 1 && a_fbn_s == vin.pk && n_fb == 1 && a_fb_s == vin.sig && n_so == 3 && so_arg[0] == a_fbn_h && so_arg[1] == a_fb_h);
        VASSERT("h = SHA-512([dom2] || R || A || M), in that order", n_init == 1 && g_pre == vin.prehashed && n_upd == 3 && upd_ptr[0] == vin.sig && upd_len[0] == 32 && upd_ptr[1] == vin.pk && upd_len[1] == 32 && upd_ptr[2] == m && upd_len[2] == vin.mlen && n_fin == 1);
        VASSERT("h is reduced modulo L and S*B - h*A is computed from (h, A, S)", n_red == 1 && red_arg == fin_out && n_dsm == 1 && dsm_a == fin_out && dsm_A == a_fbn_h && dsm_b == vin.sig + 32);
        VASSERT("the point tested last is R minus that combination", n_p2p3 == 1 && p2p3_p == dsm_r && n_sub == 1 && sub_p == a_fb_h && sub_q == p2p3_r && so_arg[2] == sub_r);
    }
    VREACH("hf_verify");
}

/* ---- crypto_sign_ed25519_open: the wrapper around verify_detached (replaced by an arbitrary verdict) ---- */
int s_verify_detached(const unsigned char *sig, const unsigned char *m, unsigned long long mlen, const unsigned char *pk)
{
    (void) pk; v_in(sig, 64); v_in(m, mlen);
    return vin.vret ? -1 : 0;
}
void hf_open(void)
{
    VIN_GET();
    VASSUME(vin.smlen <= 4096 + 64);
    unsigned long long ml = vin.smlen >= 64 ? vin.smlen - 64 : 0, mlen_out = 99;
    unsigned char *sm = malloc(vin.smlen ? vin.smlen : 1), *m = vin.m_null ? NULL : malloc(ml ? ml : 1), smg = 0; int r, have = vin.gk < ml;
#ifndef VNATIVE
    __CPROVER_assume(sm != NULL && (vin.m_null || m != NULL));
    v_gidx = vin.gk;
#endif
    if (have) { smg = sm[64 + vin.gk]; if (m) m[vin.gk] = vin.mold; }
    r = crypto_sign_ed25519_open(m, vin.lenp_null ? NULL : &mlen_out, sm, vin.smlen, vin.pk);
    if (vin.smlen < 64) { VASSERT("a signed message shorter than a signature is rejected", r == -1); if (m && have) VASSERT("output untouched", m[vin.gk] == vin.mold); }
    else {
        VASSERT("opened exactly when the signature verifies over the trailing message", (r == 0) == (vin.vret == 0) && (r == 0 || r == -1));
        if (r == 0 && m && have) VASSERT("on success the message is copied out", m[vin.gk] == smg);
        if (r != 0 && m && have) VASSERT("on failure the output holds zeros, not the unauthenticated message", m[vin.gk] == 0);
    }
    VASSERT("reported length: smlen-64 on success, 0 on failure", vin.lenp_null || mlen_out == (r == 0 ? ml : 0));
    VREACH("hf_open");
}
/* ---- crypto_sign_ed25519_open with the output overlapping the signed message (C13): m and sm inside one object at a
 * constant relative offset VDELTA = m - sm; bounded: messages <= 80 bytes. ---- */
#ifndef VDELTA
# define VDELTA 0
#endif
#define VOV 96
void hb_open_overlap(void)
{
    VIN_GET();
    VASSUME(vin.smlen >= 64 && vin.smlen <= 64 + 80);
    static unsigned char big[2 * VOV + 80 + 64 + 8]; unsigned char *sm = big + VOV, *m = big + VOV + (VDELTA), orig = 0; unsigned long long ml = vin.smlen - 64, mlen_out = 99; int r; size_t g = vin.gk % 80;
    memcpy(big, vin.ov, sizeof big);                                         /* arbitrary buffer contents */
#ifndef VNATIVE
    v_gidx = g;
#endif
    if (g < ml) orig = sm[64 + g];
    r = crypto_sign_ed25519_open(m, &mlen_out, sm, vin.smlen, vin.pk);
    VASSERT("opened exactly when the signature verifies", (r == 0) == (vin.vret == 0) && mlen_out == (r == 0 ? ml : 0));
    if (r == 0 && g < ml) VASSERT("the message delivered is the ORIGINAL signed message whatever the overlap (same result as with disjoint buffers)", m[g] == orig);
    if (r != 0 && g < ml) VASSERT("on failure the output holds zeros", m[g] == 0);
    VREACH("hb_open_overlap");
}
VNATIVE_MAIN(VENTRY)
