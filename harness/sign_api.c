/* crypto_sign front end (C06, C12): PART 0 = sign_ed25519.c key-part accessors and size constants (real memmove, also with the
 * destination inside the secret key); PART 1 = crypto_sign.c, every generic entry point forwards its arguments unchanged,
 * in order, to the Ed25519 function and returns its verdict (the Ed25519 functions are logging stubs here). */
#include "vharness.h"
#include <stdlib.h>
#include <string.h>
#include "transcript.h"
#include "crypto_sign.h"
struct vin_t { unsigned char sk[64]; unsigned long long len; int ret; unsigned dst; };
struct vin_t nondet_vin(void);
struct vin_t vin;
#if PART == 0
int _crypto_sign_ed25519_detached(unsigned char *sig, unsigned long long *siglen_p, const unsigned char *m, unsigned long long mlen, const unsigned char *sk, int prehashed);
int _crypto_sign_ed25519_verify_detached(const unsigned char *sig, const unsigned char *m, unsigned long long mlen, const unsigned char *pk, int prehashed);
#include "crypto_sign/ed25519/sign_ed25519.c"
void hf_sk_parts(void)
{
    VIN_GET();
    unsigned char seed[32], pk[32], b[64 + 32]; unsigned d = vin.dst; int r;
    r = crypto_sign_ed25519_sk_to_seed(seed, vin.sk);
    VASSERT("sk_to_seed: the first 32 bytes of the secret key (sk = seed || pk, c06.f.keypair)", r == 0 && v_eq(seed, vin.sk, 32));
    r = crypto_sign_ed25519_sk_to_pk(pk, vin.sk);
    VASSERT("sk_to_pk: the last 32 bytes of the secret key", r == 0 && v_eq(pk, vin.sk + 32, 32));
    /* destination anywhere inside (or just behind) the secret key itself: same result as with a separate buffer */
    VASSUME(d <= 64);
    memset(b, 0, sizeof b); memcpy(b, vin.sk, 64);
    r = crypto_sign_ed25519_sk_to_pk(b + d, b);
    VASSERT("sk_to_pk with the output overlapping the secret key at any offset", r == 0 && v_eq(b + d, vin.sk + 32, 32));
    memset(b, 0, sizeof b); memcpy(b, vin.sk, 64);
    r = crypto_sign_ed25519_sk_to_seed(b + d, b);
    VASSERT("sk_to_seed with the output overlapping the secret key at any offset", r == 0 && v_eq(b + d, vin.sk, 32));
    VASSERT("size constants: 64-byte signatures and secret keys, 32-byte seeds and public keys, message bound SIZE_MAX - 64, generic names equal the Ed25519 ones",
            crypto_sign_ed25519_bytes() == 64 && crypto_sign_ed25519_seedbytes() == 32 && crypto_sign_ed25519_publickeybytes() == 32 && crypto_sign_ed25519_secretkeybytes() == 64 &&
            crypto_sign_ed25519_messagebytes_max() == SIZE_MAX - 64 && crypto_sign_ed25519ph_statebytes() == sizeof(crypto_sign_ed25519ph_state) &&
            crypto_sign_BYTES == 64 && crypto_sign_SEEDBYTES == 32 && crypto_sign_PUBLICKEYBYTES == 32 && crypto_sign_SECRETKEYBYTES == 64 && crypto_sign_MESSAGEBYTES_MAX == SIZE_MAX - 64);
    VREACH("hf_sk_parts");
}
#else
static int n_call, which; static const void *a0, *a1, *a2, *a3; static unsigned long long alen;
#define REC(w, p0, p1, p2, p3, l) do { n_call++; which = (w); a0 = (p0); a1 = (p1); a2 = (p2); a3 = (p3); alen = (l); } while (0)
int crypto_sign_ed25519_seed_keypair(unsigned char *pk, unsigned char *sk, const unsigned char *seed) { REC(1, pk, sk, seed, NULL, 0); return vin.ret; }
int crypto_sign_ed25519_keypair(unsigned char *pk, unsigned char *sk) { REC(2, pk, sk, NULL, NULL, 0); return vin.ret; }
int crypto_sign_ed25519(unsigned char *sm, unsigned long long *smlen_p, const unsigned char *m, unsigned long long mlen, const unsigned char *sk) { REC(3, sm, smlen_p, m, sk, mlen); return vin.ret; }
int crypto_sign_ed25519_open(unsigned char *m, unsigned long long *mlen_p, const unsigned char *sm, unsigned long long smlen, const unsigned char *pk) { REC(4, m, mlen_p, sm, pk, smlen); return vin.ret; }
int crypto_sign_ed25519_detached(unsigned char *sig, unsigned long long *siglen_p, const unsigned char *m, unsigned long long mlen, const unsigned char *sk) { REC(5, sig, siglen_p, m, sk, mlen); return vin.ret; }
int crypto_sign_ed25519_verify_detached(const unsigned char *sig, const unsigned char *m, unsigned long long mlen, const unsigned char *pk) { REC(6, sig, m, pk, NULL, mlen); return vin.ret; }
int crypto_sign_ed25519ph_init(crypto_sign_ed25519ph_state *state) { REC(7, state, NULL, NULL, NULL, 0); return vin.ret; }
int crypto_sign_ed25519ph_update(crypto_sign_ed25519ph_state *state, const unsigned char *m, unsigned long long mlen) { REC(8, state, m, NULL, NULL, mlen); return vin.ret; }
int crypto_sign_ed25519ph_final_create(crypto_sign_ed25519ph_state *state, unsigned char *sig, unsigned long long *siglen_p, const unsigned char *sk) { REC(9, state, sig, siglen_p, sk, 0); return vin.ret; }
int crypto_sign_ed25519ph_final_verify(crypto_sign_ed25519ph_state *state, const unsigned char *sig, const unsigned char *pk) { REC(10, state, sig, pk, NULL, 0); return vin.ret; }
#include "crypto_sign/crypto_sign.c"
#define FWD(w, p0, p1, p2, p3, l) (n_call == 1 && which == (w) && a0 == (const void *) (p0) && a1 == (const void *) (p1) && a2 == (const void *) (p2) && a3 == (const void *) (p3) && alen == (l) && r == vin.ret)
void hf_generic(void)
{
    VIN_GET();
    unsigned char A[4], B[4], C[4], D[4]; unsigned long long L = 0, n = vin.len; crypto_sign_state st; int r;
    n_call = 0; r = crypto_sign_seed_keypair(A, B, C);          VASSERT("crypto_sign_seed_keypair forwards (pk, sk, seed) and the verdict", FWD(1, A, B, C, NULL, 0));
    n_call = 0; r = crypto_sign_keypair(A, B);                   VASSERT("crypto_sign_keypair forwards (pk, sk) and the verdict", FWD(2, A, B, NULL, NULL, 0));
    n_call = 0; r = crypto_sign(A, &L, B, n, C);                 VASSERT("crypto_sign forwards (sm, smlen_p, m, mlen, sk) and the verdict", FWD(3, A, &L, B, C, n));
    n_call = 0; r = crypto_sign_open(A, &L, B, n, C);            VASSERT("crypto_sign_open forwards (m, mlen_p, sm, smlen, pk) and returns the verification verdict", FWD(4, A, &L, B, C, n));
    n_call = 0; r = crypto_sign_detached(A, &L, B, n, C);        VASSERT("crypto_sign_detached forwards (sig, siglen_p, m, mlen, sk) and the verdict", FWD(5, A, &L, B, C, n));
    n_call = 0; r = crypto_sign_verify_detached(A, B, n, C);     VASSERT("crypto_sign_verify_detached forwards (sig, m, mlen, pk) and returns the verification verdict", FWD(6, A, B, C, NULL, n));
    n_call = 0; r = crypto_sign_init(&st);                       VASSERT("crypto_sign_init forwards the state", FWD(7, &st, NULL, NULL, NULL, 0));
    n_call = 0; r = crypto_sign_update(&st, A, n);               VASSERT("crypto_sign_update forwards (state, m, mlen)", FWD(8, &st, A, NULL, NULL, n));
    n_call = 0; r = crypto_sign_final_create(&st, A, &L, D);     VASSERT("crypto_sign_final_create forwards (state, sig, siglen_p, sk) and the verdict", FWD(9, &st, A, &L, D, 0));
    n_call = 0; r = crypto_sign_final_verify(&st, A, D);         VASSERT("crypto_sign_final_verify forwards (state, sig, pk) and returns the verification verdict", FWD(10, &st, A, D, NULL, 0));
    VASSERT("generic size accessors", crypto_sign_bytes() == 64 && crypto_sign_seedbytes() == 32 && crypto_sign_publickeybytes() == 32 && crypto_sign_secretkeybytes() == 64 &&
            crypto_sign_messagebytes_max() == SIZE_MAX - 64 && crypto_sign_statebytes() == sizeof(crypto_sign_ed25519ph_state));
    VREACH("hf_generic");
}
#endif
VNATIVE_MAIN(VENTRY)
