/* generic key-agreement front ends (C05): crypto_scalarmult.c and the key-agreement / key-generation / NaCl entry points of
 * crypto_box.c are a pure forwarding layer over the Curve25519 functions (logging stubs here; own obligations: c05.f.*, box.*). */
#include "vharness.h"
#include <stdlib.h>
#include <string.h>
#include "transcript.h"
#include "crypto_scalarmult.h"
#include "crypto_box.h"
struct vin_t { unsigned long long len; int ret; };
struct vin_t nondet_vin(void);
struct vin_t vin;
static int n_call, which; static const void *a0, *a1, *a2, *a3, *a4; static unsigned long long alen;
#define REC(w, p0, p1, p2, p3, p4, l) do { n_call++; which = (w); a0 = (p0); a1 = (p1); a2 = (p2); a3 = (p3); a4 = (p4); alen = (l); } while (0)
int crypto_scalarmult_curve25519(unsigned char *q, const unsigned char *n, const unsigned char *p) { REC(1, q, n, p, NULL, NULL, 0); return vin.ret; }
int crypto_scalarmult_curve25519_base(unsigned char *q, const unsigned char *n) { REC(2, q, n, NULL, NULL, NULL, 0); return vin.ret; }
int crypto_box_curve25519xsalsa20poly1305_seed_keypair(unsigned char *pk, unsigned char *sk, const unsigned char *seed) { REC(3, pk, sk, seed, NULL, NULL, 0); return vin.ret; }
int crypto_box_curve25519xsalsa20poly1305_keypair(unsigned char *pk, unsigned char *sk) { REC(4, pk, sk, NULL, NULL, NULL, 0); return vin.ret; }
int crypto_box_curve25519xsalsa20poly1305_beforenm(unsigned char *k, const unsigned char *pk, const unsigned char *sk) { REC(5, k, pk, sk, NULL, NULL, 0); return vin.ret; }
int crypto_box_curve25519xsalsa20poly1305_afternm(unsigned char *c, const unsigned char *m, unsigned long long mlen, const unsigned char *n, const unsigned char *k) { REC(6, c, m, n, k, NULL, mlen); return vin.ret; }
int crypto_box_curve25519xsalsa20poly1305_open_afternm(unsigned char *m, const unsigned char *c, unsigned long long clen, const unsigned char *n, const unsigned char *k) { REC(7, m, c, n, k, NULL, clen); return vin.ret; }
int crypto_box_curve25519xsalsa20poly1305(unsigned char *c, const unsigned char *m, unsigned long long mlen, const unsigned char *n, const unsigned char *pk, const unsigned char *sk) { REC(8, c, m, n, pk, sk, mlen); return vin.ret; }
int crypto_box_curve25519xsalsa20poly1305_open(unsigned char *m, const unsigned char *c, unsigned long long clen, const unsigned char *n, const unsigned char *pk, const unsigned char *sk) { REC(9, m, c, n, pk, sk, clen); return vin.ret; }
#include "crypto_scalarmult/crypto_scalarmult.c"
#include "crypto_box/crypto_box.c"
#define FWD(w, p0, p1, p2, p3, p4, l) (n_call == 1 && which == (w) && a0 == (const void *) (p0) && a1 == (const void *) (p1) && a2 == (const void *) (p2) && a3 == (const void *) (p3) && a4 == (const void *) (p4) && alen == (l) && r == vin.ret)
void hf_generic_c05(void)
{
    VIN_GET();
    unsigned char A[4], B[4], C[4], D[4], E[4]; unsigned long long n = vin.len; int r;
    n_call = 0; r = crypto_scalarmult(A, B, C);            VASSERT("crypto_scalarmult = X25519 on (q, n, p); its failure verdict (all-zero shared secret) is returned", FWD(1, A, B, C, NULL, NULL, 0));
    n_call = 0; r = crypto_scalarmult_base(A, B);           VASSERT("crypto_scalarmult_base = X25519 base-point multiplication on (q, n)", FWD(2, A, B, NULL, NULL, NULL, 0));
    n_call = 0; r = crypto_box_seed_keypair(A, B, C);       VASSERT("crypto_box_seed_keypair forwards (pk, sk, seed)", FWD(3, A, B, C, NULL, NULL, 0));
    n_call = 0; r = crypto_box_keypair(A, B);               VASSERT("crypto_box_keypair forwards (pk, sk)", FWD(4, A, B, NULL, NULL, NULL, 0));
    n_call = 0; r = crypto_box_beforenm(A, B, C);           VASSERT("crypto_box_beforenm forwards (k, pk, sk) and returns the key-agreement verdict", FWD(5, A, B, C, NULL, NULL, 0));
    n_call = 0; r = crypto_box_afternm(A, B, n, C, D);      VASSERT("crypto_box_afternm forwards (c, m, mlen, n, k)", FWD(6, A, B, C, D, NULL, n));
    n_call = 0; r = crypto_box_open_afternm(A, B, n, C, D); VASSERT("crypto_box_open_afternm forwards (m, c, clen, n, k) and returns the verification verdict", FWD(7, A, B, C, D, NULL, n));
    n_call = 0; r = crypto_box(A, B, n, C, D, E);           VASSERT("crypto_box forwards (c, m, mlen, n, pk, sk)", FWD(8, A, B, C, D, E, n));
    n_call = 0; r = crypto_box_open(A, B, n, C, D, E);      VASSERT("crypto_box_open forwards (m, c, clen, n, pk, sk) and returns the verification verdict", FWD(9, A, B, C, D, E, n));
    VASSERT("size accessors", crypto_scalarmult_bytes() == 32 && crypto_scalarmult_scalarbytes() == 32 && crypto_box_publickeybytes() == 32 && crypto_box_secretkeybytes() == 32 &&
            crypto_box_seedbytes() == 32 && crypto_box_beforenmbytes() == 32 && crypto_box_noncebytes() == 24 && crypto_box_macbytes() == 16 && crypto_box_zerobytes() == 32 && crypto_box_boxzerobytes() == 16);
    VREACH("hf_generic_c05");
}
VNATIVE_MAIN(VENTRY)
