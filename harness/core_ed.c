/* crypto_core_ed25519 (C07, C18, C12): validation conjunctions, scalar add/negate/complement data flow, invert / random
 * conditions.  Group arithmetic and reduction mod L are assumed callees (stubs with arbitrary results); sodium_add /
 * sodium_sub / sodium_is_zero keep their real bodies (utils.c), sc25519_is_canonical is compared with integer order. */
#include "vharness.h"
#include <stdlib.h>
#include <string.h>
#include "transcript.h"
#ifndef VNATIVE
void explicit_bzero(void *s, size_t n) { memset(s, 0, n); }
#endif
#include "sodium/utils.c"
#include "private/ed25519_ref10.h"
#include "crypto_core_ed25519.h"

struct vin_t { unsigned char p[32], q[32], s[32], x[32], y[32], red[64], draws[3][32], enc[32]; int canon, fb[2], onc[2], so, sub, which; };
struct vin_t nondet_vin(void);
struct vin_t vin;
VMISUSE_DEFINE

/* ---- assumed group / scalar primitives ---- */
static unsigned n_fb, n_onc, n_red, n_rand, n_inv; static unsigned char red_in[64]; static const void *fb_arg[2], *add_p, *add_q, *tob_src, *tob_dst; static int n_add, n_sub, n_tob;
static const unsigned char ORDER_L[32] = { 0xed, 0xd3, 0xf5, 0x5c, 0x1a, 0x63, 0x12, 0x58, 0xd6, 0x9c, 0xf7, 0xa2, 0xde, 0xf9, 0xde, 0x14, 0, 0, 0, 0, 0, 0, 0, 0, 0, 0, 0, 0, 0, 0, 0, 0x10 };
static int lt256(const unsigned char *a, const unsigned char *b) { int i, lt = 0, decided = 0; for (i = 31; i >= 0; i--) if (!decided && a[i] != b[i]) { lt = a[i] < b[i]; decided = 1; } return lt; }
int ge25519_is_canonical(const unsigned char *s) { (void) s; return vin.canon != 0; }
int ge25519_frombytes(ge25519_p3 *h, const unsigned char *s) { int r = n_fb < 2 ? vin.fb[n_fb] : 0; (void) h; if (n_fb < 2) fb_arg[n_fb] = s; n_fb++; return r ? -1 : 0; }
int ge25519_is_on_curve(const ge25519_p3 *p) { int r = n_onc < 2 ? vin.onc[n_onc] : 1; (void) p; n_onc++; return r != 0; }
int ge25519_has_small_order(const ge25519_p3 *p) { (void) p; return vin.so != 0; }
int ge25519_is_on_main_subgroup(const ge25519_p3 *p) { (void) p; return vin.sub != 0; }
void ge25519_p3_add(ge25519_p3 *r, const ge25519_p3 *p, const ge25519_p3 *q) { (void) r; n_add++; add_p = p; add_q = q; }
void ge25519_p3_sub(ge25519_p3 *r, const ge25519_p3 *p, const ge25519_p3 *q) { (void) r; n_sub++; add_p = p; add_q = q; }
void ge25519_p3_tobytes(unsigned char *s, const ge25519_p3 *h) { n_tob++; tob_dst = s; tob_src = h; memcpy(s, vin.enc, 32); }
void ge25519_from_uniform(unsigned char s[32], const unsigned char r[32]) { (void) r; memcpy(s, vin.enc, 32); }
void ge25519_from_hash(unsigned char s[32], const unsigned char h[64]) { (void) h; memcpy(s, vin.enc, 32); }
void sc25519_reduce(unsigned char s[64]) { n_red++; memcpy(red_in, s, 64); memcpy(s, vin.red, 64); }
void sc25519_invert(unsigned char recip[32], const unsigned char s[32]) { (void) s; n_inv++; memcpy(recip, vin.red, 32); }
void sc25519_mul(unsigned char s[32], const unsigned char a[32], const unsigned char b[32]) { (void) a; (void) b; memcpy(s, vin.red, 32); }
int sc25519_is_canonical(const unsigned char s[32]) { return lt256(s, ORDER_L); }      /* exactness of the real one: c06.f.is_canonical */
void randombytes_buf(void *const buf, const size_t size) { if (size == 32) memcpy(buf, vin.draws[n_rand < 3 ? n_rand : 2], 32); else v_out(buf, size); n_rand++; }
int core_h2c_string_to_hash(unsigned char *h, const size_t h_len, const char *ctx, const unsigned char *msg, size_t msg_len, int hash_alg) { (void) ctx; (void) msg; (void) msg_len; (void) hash_alg; v_out(h, h_len); return 0; }
#include "crypto_core/ed25519/core_ed25519.c"

static void reset_(void) { n_fb = n_onc = n_red = n_rand = n_inv = 0; n_add = n_sub = n_tob = 0; v_misuse_expected = 0; }

void hf_valid_point(void)
{
    VIN_GET(); reset_();
    int r = crypto_core_ed25519_is_valid_point(vin.p);
    VASSERT("is_valid_point returns 1 exactly when: canonical encoding, decodes, on the curve, not of small order, in the prime-order subgroup", r == (vin.canon && !vin.fb[0] && vin.onc[0] && !vin.so && vin.sub) && (r == 0 || r == 1));
    VREACH("hf_valid_point");
}
void hf_add_sub(void)
{
    VIN_GET(); reset_();
    unsigned char r[32]; int rc, ok = !vin.fb[0] && vin.onc[0] && !vin.fb[1] && vin.onc[1];
    memset(r, 0xA5, 32);
    rc = vin.which ? crypto_core_ed25519_sub(r, vin.p, vin.q) : crypto_core_ed25519_add(r, vin.p, vin.q);
    VASSERT("add / sub fail with -1 exactly when either operand fails to decode or is not on the curve", rc == (ok ? 0 : -1));
    if (ok) VASSERT("result = encoding of p (+/-) q, operands decoded from p and q in that order", fb_arg[0] == vin.p && fb_arg[1] == vin.q && n_tob == 1 && (vin.which ? (n_sub == 1 && n_add == 0) : (n_add == 1 && n_sub == 0)) && v_eq(r, vin.enc, 32));
    else VASSERT("nothing is written on failure", r[0] == 0xA5 && r[31] == 0xA5 && n_tob == 0);
    VREACH("hf_add_sub");
}
/* 64-byte little-endian reference arithmetic (schoolbook, byte-wise) */
static void ref_sub64(unsigned char out[64], const unsigned char a[64], const unsigned char b[64]) { int i, bor = 0; for (i = 0; i < 64; i++) { int d = a[i] - b[i] - bor; bor = d < 0; out[i] = (unsigned char) d; } }
void hf_scalar_negate(void)
{
    VIN_GET(); reset_();
    unsigned char out[32], a[64], b[64], want[64]; int i;
    memset(a, 0, 64); memset(b, 0, 64);
    for (i = 0; i < 32; i++) { a[32 + i] = ORDER_L[i]; b[i] = vin.s[i]; }
    if (vin.which) a[0] = 1;                                   /* complement: 1 + L*2^256 - s */
    ref_sub64(want, a, b);
    if (vin.which) crypto_core_ed25519_scalar_complement(out, vin.s); else crypto_core_ed25519_scalar_negate(out, vin.s);
    VASSERT("the 64-byte value reduced mod L is L*2^256 - s (negate) resp. 1 + L*2^256 - s (complement), i.e. congruent to -s resp. 1-s", n_red == 1 && v_eq(red_in, want, 64));
    VASSERT("the result is the low 32 bytes of the reduced value", v_eq(out, vin.red, 32));
    VREACH("hf_scalar_negate");
}
void hf_scalar_add(void)
{
    VIN_GET(); reset_();
    unsigned char out[32], want[64]; int i, c = 0;
    memset(want, 0, 64);
    for (i = 0; i < 32; i++) { int t = vin.x[i] + vin.y[i] + c; want[i] = (unsigned char) t; c = t >> 8; }
    crypto_core_ed25519_scalar_add(out, vin.x, vin.y);
    VASSERT("the value reduced mod L is x + y (zero extended to 64 bytes); exact for all reduced inputs, which are below 2^253", n_red == 1 && v_eq(red_in, want, 64) && ((vin.x[31] | vin.y[31]) >= 0x80 || c == 0));
    VASSERT("the result is the low 32 bytes of the reduced value", v_eq(out, vin.red, 32));
    VREACH("hf_scalar_add");
}
void hf_scalar_invert(void)
{
    VIN_GET(); reset_();
    unsigned char out[32]; int r = crypto_core_ed25519_scalar_invert(out, vin.s);
    VASSERT("invert reports -1 exactly for s == 0, 0 otherwise, and returns the inverse computed by the scalar arithmetic", r == (v_is_zero(vin.s, 32) ? -1 : 0) && n_inv == 1 && v_eq(out, vin.red, 32));
    VREACH("hf_scalar_invert");
}
void hb_scalar_random(void)
{
    VIN_GET(); reset_();
    unsigned char r[32], m[3][32]; int k, i, acc = -1;
    for (k = 0; k < 3; k++) { for (i = 0; i < 32; i++) m[k][i] = vin.draws[k][i]; m[k][31] &= 0x1f; if (acc < 0 && lt256(m[k], ORDER_L) && !v_is_zero(m[k], 32)) acc = k; }
    VASSUME(acc >= 0);                                         /* one of the first three scripted draws is acceptable */
    crypto_core_ed25519_scalar_random(r);
    VASSERT("random scalar: 32 bytes are requested per attempt, the top 3 bits are cleared, attempts repeat until the value is canonical and non-zero, the first acceptable one is returned",
            n_rand == (unsigned) acc + 1 && v_eq(r, m[acc], 32));
    VREACH("hb_scalar_random");
}
void hf_random_point(void)
{
    VIN_GET(); reset_();
    unsigned char p[32];
    crypto_core_ed25519_random(p);
    VASSERT("random point: one request of 32 uniform bytes mapped through from_uniform", n_rand == 1 && v_eq(p, vin.enc, 32));
    VREACH("hf_random_point");
}
VNATIVE_MAIN(VENTRY)
