/* ChaCha20 reference back end (crypto_stream/chacha20/ref/chacha20_ref.c), C03 / C13 / C12.
 * Step lemma: from EVERY 16-word state, one call of the real chacha20_encrypt_bytes over NB bytes (a constant) equals
 * message XOR the RFC 8439 block(s) of that state, the 64-bit block counter (words 12,13) advancing by one per block
 * with carry, and nothing beyond NB bytes written.  Specification and code start from the same state words. */
#include "vharness.h"
#include <stdlib.h>
#include "salsa_spec.h"
#define V_STUB_MEMZERO 1
#define V_MEMZERO_SILENT 1
#include "transcript.h"
#include "crypto_stream/chacha20/ref/chacha20_ref.c"

#ifndef INPLACE
# define INPLACE 0
#endif
#ifndef NB
# define NB 64
#endif
#define NBLK ((NB + 63) / 64)

struct vin_t { uint32_t st[16]; unsigned char m[NB]; unsigned char k[32], n[12]; uint64_t ic; int inplace; };
struct vin_t nondet_vin(void);
struct vin_t vin;
VMISUSE_DEFINE

void hf_block(void)
{
    VIN_GET();
    chacha_ctx ctx; uint32_t st[16]; unsigned char ks[64], out[NB + 8], min[NB]; int i, b, ok = 1;
    for (i = 0; i < 16; i++) { ctx.input[i] = vin.st[i]; st[i] = vin.st[i]; }
    for (i = 0; i < NB; i++) min[i] = vin.m[i];
    for (i = 0; i < NB + 8; i++) out[i] = 0xA5;
#if INPLACE
    for (i = 0; i < NB; i++) out[i] = vin.m[i];
    chacha20_encrypt_bytes(&ctx, out, out, NB);
#else
    chacha20_encrypt_bytes(&ctx, min, out, NB);
#endif
    for (b = 0; b < NBLK; b++) {
        sp_chacha20_block(ks, st);
#ifdef VONLYBLK     /* decomposition for multi-block lengths: this obligation compares the bytes of block VONLYBLK only (its siblings take the others) */
        if (b == VONLYBLK)
#endif
        for (i = 0; i < 64 && 64 * b + i < NB; i++) if (out[64 * b + i] != (unsigned char) (vin.m[64 * b + i] ^ ks[i])) ok = 0;
        st[12]++; if (st[12] == 0) st[13]++;          /* 64-bit block counter, low word first */
    }
    VASSERT("output = message XOR RFC 8439 keystream block(s) of the state", ok);
    VASSERT("block counter advanced by the number of blocks, carry into word 13; other words untouched", ctx.input[12] == st[12] && ctx.input[13] == st[13] && ctx.input[0] == vin.st[0] && ctx.input[4] == vin.st[4] && ctx.input[11] == vin.st[11] && ctx.input[14] == vin.st[14] && ctx.input[15] == vin.st[15]);
    ok = 1; for (i = NB; i < NB + 8; i++) if (out[i] != 0xA5) ok = 0;
    VASSERT("nothing written beyond the requested length", ok);
    VREACH("hf_block");
}

/* ---- state set-up of the four entry points (the core call is replaced by this logging stub via goto-instrument) ---- */
static uint32_t g_in[16]; static const uint8_t *g_m; static uint8_t *g_c; static unsigned long long g_bytes; static unsigned g_calls; static size_t g_gk; static int g_c_zero_at_gk;
void v_encrypt_bytes_stub(chacha_ctx *ctx, const uint8_t *m, uint8_t *c, unsigned long long bytes)
{
    int i; for (i = 0; i < 16; i++) g_in[i] = ctx->input[i];
    g_m = m; g_c = c; g_bytes = bytes; g_calls++;
    g_c_zero_at_gk = g_gk < bytes ? c[g_gk] == 0 : 1;
}
struct vin2_t { int dummy; };
void hf_setup(void)
{
    VIN_GET();
    unsigned long long len = vin.ic & 0xffff; int which = vin.inplace & 3, i, ok = 1; uint32_t ic32 = (uint32_t) (vin.ic >> 32);
    unsigned char *c = malloc(len ? len : 1), *m = malloc(len ? len : 1);
#ifndef VNATIVE
    __CPROVER_assume(c != NULL && m != NULL);
#endif
    g_calls = 0; g_gk = vin.st[0] & 0xffff;
    if (which == 0) stream_ref(c, len, vin.n, vin.k);
    else if (which == 1) stream_ietf_ext_ref(c, len, vin.n, vin.k);
    else if (which == 2) stream_ref_xor_ic(c, m, len, vin.n, vin.ic, vin.k);
    else stream_ietf_ext_ref_xor_ic(c, m, len, vin.n, ic32, vin.k);
    if (len == 0) { VASSERT("length 0: nothing is done", g_calls == 0); }
    else {
        VASSERT("one core call over the caller's buffers and length", g_calls == 1 && g_bytes == len && g_c == c && g_m == (which < 2 ? c : m));
        VASSERT("constants 'expand 32-byte k'", g_in[0] == 0x61707865 && g_in[1] == 0x3320646e && g_in[2] == 0x79622d32 && g_in[3] == 0x6b206574);
        for (i = 0; i < 8; i++) if (g_in[4 + i] != sp_ld32(vin.k + 4 * i)) ok = 0;
        VASSERT("key as 8 little-endian words 4..11", ok);
        if (which == 0) VASSERT("original layout: 64-bit counter 0 in words 12,13, 8-byte nonce in 14,15", g_in[12] == 0 && g_in[13] == 0 && g_in[14] == sp_ld32(vin.n) && g_in[15] == sp_ld32(vin.n + 4));
        if (which == 2) VASSERT("original layout: counter low/high in words 12/13", g_in[12] == (uint32_t) vin.ic && g_in[13] == (uint32_t) (vin.ic >> 32) && g_in[14] == sp_ld32(vin.n) && g_in[15] == sp_ld32(vin.n + 4));
        if (which == 1) VASSERT("IETF layout: 32-bit counter 0 in word 12, 12-byte nonce in 13..15", g_in[12] == 0 && g_in[13] == sp_ld32(vin.n) && g_in[14] == sp_ld32(vin.n + 4) && g_in[15] == sp_ld32(vin.n + 8));
        if (which == 3) VASSERT("IETF layout: counter in word 12", g_in[12] == ic32 && g_in[13] == sp_ld32(vin.n) && g_in[14] == sp_ld32(vin.n + 4) && g_in[15] == sp_ld32(vin.n + 8));
        if (which < 2) VASSERT("plain stream: output zeroed before the in-place XOR", g_c_zero_at_gk);
    }
    VREACH("hf_setup");
}

VNATIVE_MAIN(VENTRY)
