/* crypto_verify_16/32/64: finite-complete obligations (constant trip counts, full input domain).
 * Built twice: portable path (no HAVE_EMMINTRIN_H) and SSE2 path (HAVE_EMMINTRIN_H kept, pmovmskb128 modelled). */
#include "vharness.h"
#include <stdlib.h>

#if !defined(VNATIVE) && defined(HAVE_EMMINTRIN_H)
/* assumed model of the SSE2 instruction PMOVMSKB (gcc builtin without a body): bit i = top bit of byte i */
typedef char v16qi_model __attribute__((vector_size(16)));
int __builtin_ia32_pmovmskb128(v16qi_model v)
{
    int r = 0, i;
    for (i = 0; i < 16; i++) r |= ((v[i] >> 7) & 1) << i;
    return r;
}
#endif

#include "crypto_verify/verify.c"

struct vin_t { unsigned char x[64]; unsigned char y[64]; };
struct vin_t nondet_vin(void);
struct vin_t vin;

static unsigned char *dup_(const unsigned char *src, size_t n)
{
    unsigned char *p = malloc(n); size_t i;
#ifndef VNATIVE
    __CPROVER_assume(p != NULL);
#endif
    for (i = 0; i < n; i++) p[i] = src[i];
    return p;
}

#define HV(N)                                                                                   \
void hf_verify_##N(void)                                                                        \
{                                                                                               \
    VIN_GET();                                                                                  \
    unsigned char *x = dup_(vin.x, N), *y = dup_(vin.y, N);                                     \
    int eq = 1; size_t i;                                                                       \
    for (i = 0; i < N; i++) if (vin.x[i] != vin.y[i]) eq = 0;                                   \
    int r = crypto_verify_##N(x, y);                                                            \
    VASSERT("crypto_verify_" #N " returns 0 iff the " #N " bytes are equal, -1 otherwise", r == (eq ? 0 : -1)); \
    VREACH("hf_verify_" #N);                                                                    \
}
HV(16) HV(32) HV(64)

VNATIVE_MAIN(VENTRY)
