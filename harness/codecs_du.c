/* dfcc entry points for the decoders' unbounded contracts (contracts/codecs_u.h) */
#include "sodium/codecs.c"
int v_errno; size_t g_k, g_m;
void sodium_misuse(void) { __CPROVER_assert(0, "sodium_misuse reachable for an in-contract call"); __CPROVER_assume(0); }
void hu_hex2bin(void) { unsigned char *b; size_t bm; const char *h; size_t hl; const char *ig; size_t *bl; const char **he; sodium_hex2bin(b, bm, h, hl, ig, bl, he); }
void hu_base642bin(void) { unsigned char *b; size_t bm; const char *h; size_t hl; const char *ig; size_t *bl; const char **he; int v; sodium_base642bin(b, bm, h, hl, ig, bl, he, v); }
void hu_bin2base64(void) { char *o; size_t om; const unsigned char *b; size_t bl; int v; sodium_bin2base64(o, om, b, bl, v); }
