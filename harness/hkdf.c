/* HKDF-SHA-256 / HKDF-SHA-512 (RFC 5869) over the HMAC API as assumed callee (C04): extract = HMAC(salt, ikm);
 * expand: T(i) = HMAC(prk, T(i-1) || info || i), output = T(1) || T(2) || ... truncated; out_len > 255*HashLen refused. */
#include "vharness.h"
#include <stdlib.h>
#include <string.h>
#include <errno.h>
#define V_STUB_MEMZERO 1
#define V_MEMZERO_SILENT 1
#define V_STUB_RANDOMBYTES 1
#include "transcript.h"
#ifndef HB
# define HB 256
#endif
#if HB == 256
# include "crypto_auth_hmacsha256.h"
# define H 32
# define ST crypto_auth_hmacsha256_state
# define MI crypto_auth_hmacsha256_init
# define MU crypto_auth_hmacsha256_update
# define MF crypto_auth_hmacsha256_final
# define KFN(x) crypto_kdf_hkdf_sha256_##x
# define KSRC "crypto_kdf/hkdf/kdf_hkdf_sha256.c"
#else
# include "crypto_auth_hmacsha512.h"
# define H 64
# define ST crypto_auth_hmacsha512_state
# define MI crypto_auth_hmacsha512_init
# define MU crypto_auth_hmacsha512_update
# define MF crypto_auth_hmacsha512_final
# define KFN(x) crypto_kdf_hkdf_sha512_##x
# define KSRC "crypto_kdf/hkdf/kdf_hkdf_sha512.c"
#endif
#define NB 4
struct vin_t { size_t out_len, ctx_len, salt_len, ikm_len; unsigned char prk[64], t[NB][64]; };
struct vin_t nondet_vin(void);
struct vin_t vin;
VMISUSE_DEFINE
enum { M_INIT = 1, M_UPD, M_FIN };
struct mev { int op; const void *st, *ptr; size_t len; int b0; } mlog[24]; unsigned mn, nfin;
static struct mev *mp(int op, const void *st) { struct mev *e = &mlog[mn < 24 ? mn : 23]; mn++; e->op = op; e->st = st; e->ptr = NULL; e->len = 0; e->b0 = -1; return e; }
int MI(ST *state, const unsigned char *key, size_t keylen) { struct mev *e = mp(M_INIT, state); v_in(key, keylen); e->ptr = key; e->len = keylen; return 0; }
int MU(ST *state, const unsigned char *in, unsigned long long inlen) { struct mev *e = mp(M_UPD, state); v_in(in, inlen); e->ptr = in; e->len = (size_t) inlen; if (inlen == 1) e->b0 = in[0]; return 0; }
int MF(ST *state, unsigned char *out) { struct mev *e = mp(M_FIN, state); e->ptr = out; v_fixed_out(out, vin.t[nfin < NB ? nfin : NB - 1], H); nfin++; return 0; }
#include KSRC

void hf_extract(void)
{
    VIN_GET(); mn = 0; nfin = 0;
    VASSUME(vin.salt_len <= 4096 && vin.ikm_len <= 4096);
    unsigned char *salt = malloc(vin.salt_len ? vin.salt_len : 1), *ikm = malloc(vin.ikm_len ? vin.ikm_len : 1), prk[H]; int r;
#ifndef VNATIVE
    __CPROVER_assume(salt != NULL && ikm != NULL);
#endif
    r = KFN(extract)(prk, salt, vin.salt_len, ikm, vin.ikm_len);
    VASSERT("extract: PRK = HMAC(key = salt, message = ikm)", r == 0 && mn == 3 && mlog[0].op == M_INIT && mlog[0].ptr == salt && mlog[0].len == vin.salt_len &&
            mlog[1].op == M_UPD && mlog[1].st == mlog[0].st && mlog[1].ptr == ikm && mlog[1].len == vin.ikm_len && mlog[2].op == M_FIN && mlog[2].st == mlog[0].st && v_eq(prk, vin.t[0], H));
    VREACH("hf_extract");
}

void hb_expand(void)
{
    VIN_GET(); mn = 0; nfin = 0;
#ifdef OLEN
    vin.out_len = OLEN;           /* constant output length: concrete loop bounds and copy lengths */
#endif
    VASSUME(vin.out_len <= (NB - 1) * H + H - 1 && vin.ctx_len <= 4096);
    unsigned char *out = malloc(vin.out_len ? vin.out_len : 1); char *ctx = malloc(vin.ctx_len ? vin.ctx_len : 1); int r; size_t nblk = (vin.out_len + H - 1) / H, b, e = 0, j; int ok = 1;
#ifndef VNATIVE
    __CPROVER_assume(out != NULL && ctx != NULL);
#endif
    r = KFN(expand)(out, vin.out_len, ctx, vin.ctx_len, vin.prk);
    VASSERT("expand succeeds within the limit", r == 0);
    for (b = 0; b < nblk && b < NB; b++) {
        if (!(mlog[e].op == M_INIT && mlog[e].ptr == vin.prk && mlog[e].len == H)) ok = 0;          /* keyed with the PRK (KEYBYTES = HashLen) */
        const void *st = mlog[e].st; e++;
        if (b > 0) { if (!(mlog[e].op == M_UPD && mlog[e].st == st && mlog[e].ptr == out + (b - 1) * H && mlog[e].len == H)) ok = 0; e++; }   /* T(i-1) */
        if (!(mlog[e].op == M_UPD && mlog[e].st == st && mlog[e].ptr == (const void *) ctx && mlog[e].len == vin.ctx_len)) ok = 0; e++;          /* info  */
        if (!(mlog[e].op == M_UPD && mlog[e].st == st && mlog[e].len == 1 && mlog[e].b0 == (int) (b + 1))) ok = 0; e++;                           /* counter byte i */
        if (!(mlog[e].op == M_FIN && mlog[e].st == st)) ok = 0; e++;
        for (j = 0; j < H && b * H + j < vin.out_len; j++) if (out[b * H + j] != vin.t[b][j]) ok = 0;                                           /* T(i), last one truncated */
    }
    VASSERT("T(i) = HMAC(PRK, T(i-1) || info || i) for i = 1.., output = T(1) || T(2) || ... truncated to out_len; no other MAC calls", ok && mn == e);
    VREACH("hb_expand");
}
void hf_expand_toolong(void)
{
    VIN_GET(); mn = 0; nfin = 0;
    VASSUME(vin.out_len > 255 * (size_t) H);
    unsigned char d[4]; int r; errno = 0;
    r = KFN(expand)(d, vin.out_len, "", 0, vin.prk);
    VASSERT("out_len > 255 * HashLen is refused with -1 / EINVAL before anything is computed", r == -1 && errno == EINVAL && mn == 0);
    VREACH("hf_expand_toolong");
}
VNATIVE_MAIN(VENTRY)
