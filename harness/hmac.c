/* HMAC-SHA-256 / HMAC-SHA-512 / HMAC-SHA-512-256 (C04, C02): the real init / update / final / one-shot / verify code
 * against RFC 2104, with the hash functions as assumed callees (logging stubs returning arbitrary-but-known digests).
 * HB = 256 or 512; HB == 512 also includes the 512-256 truncation wrappers. */
#include "vharness.h"
#include <stdlib.h>
#include <string.h>
#define V_STUB_MEMZERO 1
#define V_MEMZERO_SILENT 1
#define V_STUB_RANDOMBYTES 1
#include "transcript.h"
#include "crypto_verify/verify.c"
#ifndef HB
# define HB 512
#endif
#if HB == 512
# include "crypto_hash_sha512.h"
# define BLK 128
# define DIG 64
# define HSTATE crypto_hash_sha512_state
# define HINIT crypto_hash_sha512_init
# define HUPD crypto_hash_sha512_update
# define HFIN crypto_hash_sha512_final
# define AFN(x) crypto_auth_hmacsha512##x
#else
# include "crypto_hash_sha256.h"
# define BLK 64
# define DIG 32
# define HSTATE crypto_hash_sha256_state
# define HINIT crypto_hash_sha256_init
# define HUPD crypto_hash_sha256_update
# define HFIN crypto_hash_sha256_final
# define AFN(x) crypto_auth_hmacsha256##x
#endif
#define KMAX 200

struct vin_t { size_t keylen; unsigned long long inlen; unsigned char key[KMAX], d[3][64], h[64]; int alias; };
struct vin_t nondet_vin(void);
struct vin_t vin;
VMISUSE_DEFINE

/* ---- hash transcript ---- */
enum { HE_INIT = 1, HE_UPDATE, HE_FINAL };
enum { HK_OTHER = 0, HK_IPAD, HK_OPAD, HK_DIGEST0, HK_DIGEST1 };
struct hev { int op; const void *ctx, *ptr; unsigned long long len; int kind; } hlog[12]; unsigned hn; unsigned nfinal;
static unsigned char ref_ipad[BLK], ref_opad[BLK];     /* expected pads for the effective key */
static struct hev *hpush(int op, const void *ctx) { struct hev *e = &hlog[hn < 12 ? hn : 11]; hn++; e->op = op; e->ctx = ctx; e->ptr = NULL; e->len = 0; e->kind = 0; return e; }
int HINIT(HSTATE *state) { hpush(HE_INIT, state); return 0; }
int HUPD(HSTATE *state, const unsigned char *in, unsigned long long inlen)
{
    struct hev *e = hpush(HE_UPDATE, state); int k = HK_OTHER;
    v_in(in, inlen);
    if (inlen == BLK && v_eq(in, ref_ipad, BLK)) k = HK_IPAD;
    else if (inlen == BLK && v_eq(in, ref_opad, BLK)) k = HK_OPAD;
    else if (inlen == DIG && v_eq(in, vin.d[0], DIG)) k = HK_DIGEST0;
    else if (inlen == DIG && v_eq(in, vin.d[1], DIG)) k = HK_DIGEST1;
    e->ptr = in; e->len = inlen; e->kind = k;
    return 0;
}
int HFIN(HSTATE *state, unsigned char *out)
{
    struct hev *e = hpush(HE_FINAL, state);
    e->ptr = out; v_fixed_out(out, vin.d[nfinal < 3 ? nfinal : 2], DIG); nfinal++;
    return 0;
}
int sodium_memcmp(const void *const b1_, const void *const b2_, size_t len)   /* exact semantics (proved in C14) */
{
    const unsigned char *a = b1_, *b = b2_; size_t i; int d = 0;
    for (i = 0; i < len; i++) if (a[i] != b[i]) d = -1;
    return d;
}
#if HB == 512
# include "crypto_auth/hmacsha512/auth_hmacsha512.c"
#else
# include "crypto_auth/hmacsha256/auth_hmacsha256.c"
#endif

static void mk_pads_(const unsigned char *k, size_t klen)
{
    size_t i;
    for (i = 0; i < BLK; i++) { unsigned char kb = i < klen ? k[i] : 0; ref_ipad[i] = kb ^ 0x36; ref_opad[i] = kb ^ 0x5c; }
}

/* RFC 2104: K' = H(K) if |K| > B else K;  inner = H((K' xor ipad) || text);  HMAC = H((K' xor opad) || inner) */
void hf_init(void)
{
    VIN_GET(); hn = 0; nfinal = 0;
    VASSUME(vin.keylen <= KMAX);
    unsigned char *key = malloc(vin.keylen ? vin.keylen : 1); size_t i; unsigned b;
#ifndef VNATIVE
    __CPROVER_assume(key != NULL);
#endif
    for (i = 0; i < vin.keylen; i++) key[i] = vin.key[i];
    if (vin.keylen > BLK) mk_pads_(vin.d[0], DIG); else mk_pads_(vin.key, vin.keylen);
    AFN(_state) st;
    AFN(_init)(&st, key, vin.keylen);
    b = 0;
    if (vin.keylen > BLK) {
        VASSERT("a key longer than the hash block is first replaced by its digest", hlog[0].op == HE_INIT && hlog[1].op == HE_UPDATE && hlog[1].ctx == hlog[0].ctx && hlog[1].ptr == key && hlog[1].len == vin.keylen && hlog[2].op == HE_FINAL && hlog[2].ctx == hlog[0].ctx);
        b = 3;
    }
    VASSERT("inner context = H over (K' xor 0x36..36), one block", hlog[b].op == HE_INIT && hlog[b].ctx == &st.ictx && hlog[b + 1].op == HE_UPDATE && hlog[b + 1].ctx == &st.ictx && hlog[b + 1].kind == HK_IPAD);
    VASSERT("outer context = H over (K' xor 0x5c..5c), one block", hlog[b + 2].op == HE_INIT && hlog[b + 2].ctx == &st.octx && hlog[b + 3].op == HE_UPDATE && hlog[b + 3].ctx == &st.octx && hlog[b + 3].kind == HK_OPAD);
    VASSERT("a key of at most one block is used as is (zero padded); nothing else is hashed", hn == b + 4);
    VREACH("hf_init");
}

void hf_update_final(void)
{
    VIN_GET(); hn = 0; nfinal = 0;
    VASSUME(vin.inlen <= 65535);
    unsigned char *in = malloc(vin.inlen ? vin.inlen : 1), out[DIG]; AFN(_state) st;
#ifndef VNATIVE
    __CPROVER_assume(in != NULL);
#endif
    AFN(_update)(&st, in, vin.inlen);
    VASSERT("update feeds the text to the inner context only", hn == 1 && hlog[0].op == HE_UPDATE && hlog[0].ctx == &st.ictx && hlog[0].ptr == in && hlog[0].len == vin.inlen);
    hn = 0;
    AFN(_final)(&st, out);
    VASSERT("final: inner digest, appended to the outer context, outer digest is the MAC",
            hn == 3 && hlog[0].op == HE_FINAL && hlog[0].ctx == &st.ictx && hlog[1].op == HE_UPDATE && hlog[1].ctx == &st.octx && hlog[1].kind == HK_DIGEST0 && hlog[1].len == DIG &&
            hlog[2].op == HE_FINAL && hlog[2].ctx == &st.octx && hlog[2].ptr == out && v_eq(out, vin.d[1], DIG));
    VREACH("hf_update_final");
}

void hf_oneshot_verify(void)
{
    VIN_GET(); hn = 0; nfinal = 0;
    VASSUME(vin.inlen <= 65535);
    unsigned char *in = malloc(vin.inlen ? vin.inlen : 1), out[DIG]; int r;
#ifndef VNATIVE
    __CPROVER_assume(in != NULL);
#endif
    mk_pads_(vin.key, 32);
    AFN()(out, in, vin.inlen, vin.key);
    VASSERT("one-shot = init(32-byte key), update(text), final",
            hn == 8 && hlog[1].kind == HK_IPAD && hlog[3].kind == HK_OPAD && hlog[4].op == HE_UPDATE && hlog[4].ptr == in && hlog[4].len == vin.inlen && hlog[4].ctx == hlog[0].ctx &&
            hlog[5].op == HE_FINAL && hlog[6].kind == HK_DIGEST0 && hlog[7].op == HE_FINAL && v_eq(out, vin.d[1], DIG));
    hn = 0; nfinal = 0;
    r = AFN(_verify)(vin.h, in, vin.inlen, vin.key);
    VASSERT("verify accepts exactly the correct tag (all bytes), -1 otherwise", r == (v_eq(vin.h, vin.d[1], DIG) ? 0 : -1));
    VREACH("hf_oneshot_verify");
}

#if HB == 512
/* HMAC-SHA-512-256 = first 32 bytes of HMAC-SHA-512 */
# define crypto_auth_hmacsha512256_keygen v_unused_keygen_512256
# include "crypto_auth/hmacsha512256/auth_hmacsha512256.c"
void hf_512256(void)
{
    VIN_GET(); hn = 0; nfinal = 0;
    VASSUME(vin.inlen <= 65535 && vin.keylen <= KMAX);
    unsigned char *in = malloc(vin.inlen ? vin.inlen : 1), out[32]; int r; crypto_auth_hmacsha512256_state st; unsigned b;
#ifndef VNATIVE
    __CPROVER_assume(in != NULL);
#endif
    if (vin.keylen > BLK) mk_pads_(vin.d[0], DIG); else mk_pads_(vin.key, vin.keylen);
    crypto_auth_hmacsha512256_init(&st, vin.key, vin.keylen);
    b = vin.keylen > BLK ? 3 : 0;
    VASSERT("512-256 init = HMAC-SHA-512 init with the same key", hn == b + 4 && hlog[b + 1].kind == HK_IPAD && hlog[b + 3].kind == HK_OPAD);
    hn = 0; nfinal = 0; mk_pads_(vin.key, 32);
    crypto_auth_hmacsha512256(out, in, vin.inlen, vin.key);
    VASSERT("512-256 tag = first 32 bytes of the HMAC-SHA-512 tag over the same text", hn == 8 && hlog[1].kind == HK_IPAD && hlog[3].kind == HK_OPAD && hlog[4].ptr == in && hlog[4].len == vin.inlen && hlog[6].kind == HK_DIGEST0 && v_eq(out, vin.d[1], 32));
    hn = 0; nfinal = 0;
    r = crypto_auth_hmacsha512256_verify(vin.h, in, vin.inlen, vin.key);
    VASSERT("512-256 verify accepts exactly the correct 32-byte tag", r == (v_eq(vin.h, vin.d[1], 32) ? 0 : -1));
    VREACH("hf_512256");
}
#endif

VNATIVE_MAIN(VENTRY)
