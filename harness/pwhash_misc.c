/* crypto_pwhash.c dispatch and the scrypt API wrappers (C08, C12): algorithm / prefix dispatch, limits, needs_rehash and
 * str_verify semantics.  The Argon2 API, the scrypt KDF and its $7$ codec are assumed callees. */
#include "vharness.h"
#include <stdlib.h>
#include <string.h>
#include <errno.h>
#include "transcript.h"
struct vin_t { char s[12]; unsigned long long outlen, passwdlen, opslimit; size_t memlimit, slen; int alg, ret, r_null, p_null; uint32_t pN, pr, pp; unsigned char w[102]; };
struct vin_t nondet_vin(void);
struct vin_t vin;
VMISUSE_DEFINE
#if PART == 0
static int called;        /* 1: argon2i raw, 2: argon2id raw, 3: i str, 4: id str, 5: i verify, 6: id verify, 7: i rehash, 8: id rehash */
int crypto_pwhash_argon2i(unsigned char *const out, unsigned long long outlen, const char *const passwd, unsigned long long passwdlen, const unsigned char *const salt, unsigned long long opslimit, size_t memlimit, int alg) { (void) out; (void) outlen; (void) passwd; (void) passwdlen; (void) salt; (void) opslimit; (void) memlimit; (void) alg; called = 1; return vin.ret; }
int crypto_pwhash_argon2id(unsigned char *const out, unsigned long long outlen, const char *const passwd, unsigned long long passwdlen, const unsigned char *const salt, unsigned long long opslimit, size_t memlimit, int alg) { (void) out; (void) outlen; (void) passwd; (void) passwdlen; (void) salt; (void) opslimit; (void) memlimit; (void) alg; called = 2; return vin.ret; }
int crypto_pwhash_argon2i_str(char out[128], const char *const passwd, unsigned long long passwdlen, unsigned long long opslimit, size_t memlimit) { (void) out; (void) passwd; (void) passwdlen; (void) opslimit; (void) memlimit; called = 3; return vin.ret; }
int crypto_pwhash_argon2id_str(char out[128], const char *const passwd, unsigned long long passwdlen, unsigned long long opslimit, size_t memlimit) { (void) out; (void) passwd; (void) passwdlen; (void) opslimit; (void) memlimit; called = 4; return vin.ret; }
int crypto_pwhash_argon2i_str_verify(const char *str, const char *const passwd, unsigned long long passwdlen) { (void) str; (void) passwd; (void) passwdlen; called = 5; return vin.ret; }
int crypto_pwhash_argon2id_str_verify(const char *str, const char *const passwd, unsigned long long passwdlen) { (void) str; (void) passwd; (void) passwdlen; called = 6; return vin.ret; }
int crypto_pwhash_argon2i_str_needs_rehash(const char *str, unsigned long long opslimit, size_t memlimit) { (void) str; (void) opslimit; (void) memlimit; called = 7; return vin.ret; }
int crypto_pwhash_argon2id_str_needs_rehash(const char *str, unsigned long long opslimit, size_t memlimit) { (void) str; (void) opslimit; (void) memlimit; called = 8; return vin.ret; }
#include "crypto_pwhash/crypto_pwhash.c"
void hf_dispatch(void)
{
    VIN_GET();
    char str[12], pw[4]; unsigned char out[16], salt[16]; int r, i, is_id, is_i;
    for (i = 0; i < 11; i++) str[i] = vin.s[i];
    str[11] = 0;
    is_id = memcmp(str, "$argon2id$", 10) == 0; is_i = !is_id && memcmp(str, "$argon2i$", 9) == 0;
    called = 0; errno = 0; r = crypto_pwhash_str_verify(str, pw, 4);
    VASSERT("str_verify dispatches on the string prefix ($argon2id$ / $argon2i$); any other string is malformed: -1 / EINVAL without hashing",
            is_id ? (called == 6 && r == vin.ret) : is_i ? (called == 5 && r == vin.ret) : (called == 0 && r == -1 && errno == EINVAL));
    called = 0; errno = 0; r = crypto_pwhash_str_needs_rehash(str, vin.opslimit, vin.memlimit);
    VASSERT("needs_rehash dispatches the same way; unknown prefix => -1", is_id ? (called == 8 && r == vin.ret) : is_i ? (called == 7 && r == vin.ret) : (called == 0 && r == -1 && errno == EINVAL));
    called = 0; errno = 0; r = crypto_pwhash(out, 16, pw, 4, salt, vin.opslimit, vin.memlimit, vin.alg);
    VASSERT("raw API dispatches on the algorithm id; unknown id => -1 / EINVAL", vin.alg == crypto_pwhash_ALG_ARGON2I13 ? called == 1 : vin.alg == crypto_pwhash_ALG_ARGON2ID13 ? called == 2 : (called == 0 && r == -1 && errno == EINVAL));
    VREACH("hf_dispatch");
}
#else
#include "crypto_pwhash/scryptsalsa208sha256/crypto_scrypt.h"
#include "crypto_pwhash_scryptsalsa208sha256.h"
static int n_ll, n_r, n_parse, n_rand; static uint64_t ll_N; static uint32_t ll_r, ll_p; static size_t ll_pl, ll_sl, ll_ol; static const void *ll_out;
int crypto_pwhash_scryptsalsa208sha256_ll(const uint8_t *passwd, size_t passwdlen, const uint8_t *salt, size_t saltlen, uint64_t N, uint32_t r, uint32_t p, uint8_t *buf, size_t buflen)
{ (void) passwd; (void) salt; n_ll++; ll_N = N; ll_r = r; ll_p = p; ll_pl = passwdlen; ll_sl = saltlen; ll_ol = buflen; ll_out = buf; return vin.ret; }
uint8_t *escrypt_r(escrypt_local_t *l, const uint8_t *passwd, size_t passwdlen, const uint8_t *setting, uint8_t *buf, size_t buflen)
{ (void) l; (void) passwd; (void) passwdlen; (void) setting; n_r++; if (vin.r_null) return NULL; memcpy(buf, vin.w, buflen <= 102 ? buflen : 102); return buf; }
uint8_t *escrypt_gensalt_r(uint32_t N_log2, uint32_t r, uint32_t p, const uint8_t *src, size_t srclen, uint8_t *buf, size_t buflen) { (void) N_log2; (void) r; (void) p; (void) src; (void) srclen; (void) buflen; return buf; }
const uint8_t *escrypt_parse_setting(const uint8_t *setting, uint32_t *N_log2_p, uint32_t *r_p, uint32_t *p_p) { n_parse++; if (vin.p_null) return NULL; *N_log2_p = vin.pN; *r_p = vin.pr; *p_p = vin.pp; return setting; }
int escrypt_init_local(escrypt_local_t *l) { (void) l; return 0; }
int escrypt_free_local(escrypt_local_t *l) { (void) l; return 0; }
void randombytes_buf(void *const buf, const size_t size) { n_rand++; v_out(buf, size); }
void sodium_memzero(void *const pnt, const size_t len) { memset(pnt, 0, len); }
int sodium_memcmp(const void *const b1_, const void *const b2_, size_t len) { const unsigned char *a = b1_, *b = b2_; size_t i; int d = 0; for (i = 0; i < len; i++) if (a[i] != b[i]) d = -1; return d; }
#include "crypto_pwhash/scryptsalsa208sha256/pwhash_scryptsalsa208sha256.c"
void hf_scrypt_params(void)
{
    VIN_GET();
    uint32_t N_log2 = 0, p = 0, r = 0; int rc = pickparams(vin.opslimit, vin.memlimit, &N_log2, &p, &r);
    VASSERT("parameter picking always yields N = 2^k with 1 <= k <= 63, r = 8 and r*p below 2^30", rc == 0 && N_log2 >= 1 && N_log2 <= 63 && r == 8 && (uint64_t) r * p <= 0x3fffffffULL);
    VREACH("hf_scrypt_params");
}
void hf_scrypt_raw(void)
{
    VIN_GET(); n_ll = 0; errno = 0;
    VASSUME(vin.outlen <= 128);
    unsigned char *out = malloc(vin.outlen ? vin.outlen : 1), salt[32]; char pw[4]; int r; uint32_t N_log2 = 0, p = 0, rr = 0;
#ifndef VNATIVE
    __CPROVER_assume(out != NULL);
#endif
    r = crypto_pwhash_scryptsalsa208sha256(out, vin.outlen, pw, vin.passwdlen, salt, vin.opslimit, vin.memlimit);
    if (vin.passwdlen > crypto_pwhash_scryptsalsa208sha256_PASSWD_MAX || vin.outlen < crypto_pwhash_scryptsalsa208sha256_BYTES_MIN) VASSERT("over-long password or too short output => -1 without running the KDF", r == -1 && n_ll == 0 && (errno == EFBIG || errno == EINVAL));
    else { pickparams(vin.opslimit, vin.memlimit, &N_log2, &p, &rr);
           VASSERT("in-range request: one KDF call with the picked (N, r, p), 32-byte salt, the caller's buffers; its status is returned", n_ll == 1 && ll_N == ((uint64_t) 1 << N_log2) && ll_r == rr && ll_p == p && ll_pl == vin.passwdlen && ll_sl == 32 && ll_ol == vin.outlen && ll_out == out && r == vin.ret); }
    VREACH("hf_scrypt_raw");
}
void hf_scrypt_str_verify(void)
{
    VIN_GET(); n_r = 0;
    VASSUME(vin.slen <= 110);
    char str[112], pw[4]; size_t i; int r, same = 1;
    for (i = 0; i < 110; i++) str[i] = i < vin.slen ? (vin.w[i % 102] ? (char) vin.w[i % 102] : 'x') : 0;
    str[110] = 0; str[111] = 0;
    r = crypto_pwhash_scryptsalsa208sha256_str_verify(str, pw, 4);
    for (i = 0; i < 102; i++) if (vin.w[i] != (unsigned char) str[i]) same = 0;
    if (vin.slen != 101) VASSERT("a string that is not exactly 101 characters long is rejected without hashing", r == -1 && n_r == 0);
    else VASSERT("str_verify returns 0 exactly when hashing succeeded and the recomputed 102-byte string equals the given one", n_r == 1 && r == ((!vin.r_null && same) ? 0 : -1));
    VREACH("hf_scrypt_str_verify");
}
void hf_scrypt_needs_rehash(void)
{
    VIN_GET(); n_parse = 0; errno = 0;
    VASSUME(vin.slen <= 110);
    char str[112]; size_t i; int r; uint32_t N_log2 = 0, p = 0, rr = 0;
    for (i = 0; i < 110; i++) str[i] = i < vin.slen ? 'x' : 0;
    str[110] = 0; str[111] = 0;
    pickparams(vin.opslimit, vin.memlimit, &N_log2, &p, &rr);
    r = crypto_pwhash_scryptsalsa208sha256_str_needs_rehash(str, vin.opslimit, vin.memlimit);
    if (vin.slen != 101) VASSERT("wrong length => -1 / EINVAL", r == -1 && errno == EINVAL && n_parse == 0);
    else if (vin.p_null) VASSERT("unparsable setting => -1", r == -1 && errno == EINVAL);
    else VASSERT("0 exactly when the string's (N, r, p) equal the parameters picked for the request, 1 otherwise", r == ((vin.pN == N_log2 && vin.pr == rr && vin.pp == p) ? 0 : 1));
    VREACH("hf_scrypt_needs_rehash");
}
#endif
VNATIVE_MAIN(VENTRY)
