/* Guarded allocation (C17, C20, C12): the real sodium_malloc / sodium_allocarray / sodium_free / sodium_mprotect_* code
 * of utils.c with the operating-system calls replaced by logging stubs (ASSUMED contracts):
 *   mmap     returns page-aligned fresh memory of the requested size or MAP_FAILED (nondeterministically)
 *   mprotect / mlock / munlock / madvise / munmap   succeed and are recorded in a ghost log
 *   a page with PROT_NONE faults on any access (OS semantics - not modelled, assumed)
 *   raise / abort terminate the process (abort ends the path)
 * The harness then checks the layout arithmetic the property depends on. */
#include "vharness.h"
#include <stdlib.h>
#include <errno.h>
#include <sys/mman.h>
#include <signal.h>
#include <unistd.h>

struct vin_t { size_t size, count, gk; int page_sel, mmap_fails, alter, alter_ix, prot_sel; unsigned char canary[16], alter_val; };
struct vin_t nondet_vin(void);
struct vin_t vin;
VMISUSE_DEFINE

/* ---- ghost log of OS calls ---- */
#define MAXP 8
struct { void *addr; size_t len; int prot; } g_prot[MAXP]; unsigned g_nprot;
void *g_map_addr; size_t g_map_len; unsigned g_nmap, g_nunmap; void *g_unmap_addr; size_t g_unmap_len;
unsigned g_nlock, g_nunlock; void *g_lock_addr; size_t g_lock_len;
int g_abort_expected, g_aborted, g_raised;
size_t g_page;
unsigned g_prot_before_abort;

long sysconf(int name) { (void) name; return (long) g_page; }
void *mmap(void *addr, size_t len, int prot, int flags, int fd, off_t off)
{
    void *p;
    (void) addr; (void) flags; (void) fd; (void) off;
    __CPROVER_assert(prot == (PROT_READ | PROT_WRITE), "mapping requested read-write");
    g_nmap++;
    if (vin.mmap_fails) { errno = ENOMEM; return MAP_FAILED; }
    __CPROVER_assume(len <= 16 * 65536);
    p = malloc(len);
    __CPROVER_assume(p != NULL && ((uintptr_t) p & (g_page - 1)) == 0 && (uintptr_t) p > 4 * g_page);
    g_map_addr = p; g_map_len = len;
    return p;
}
int munmap(void *addr, size_t len) { g_nunmap++; g_unmap_addr = addr; g_unmap_len = len; return 0; }
int mprotect(void *addr, size_t len, int prot)
{
    if (g_nprot < MAXP) { g_prot[g_nprot].addr = addr; g_prot[g_nprot].len = len; g_prot[g_nprot].prot = prot; }
    g_nprot++;
    return 0;
}
int mlock(const void *addr, size_t len) { g_nlock++; g_lock_addr = (void *) addr; g_lock_len = len; return 0; }
int munlock(const void *addr, size_t len) { (void) addr; (void) len; g_nunlock++; return 0; }
int madvise(void *addr, size_t len, int advice) { (void) addr; (void) len; (void) advice; return 0; }
int raise(int sig) { (void) sig; g_raised = 1; return 0; }
void abort(void)
{
    __CPROVER_assert(g_abort_expected, "process terminated (abort) only when the canary was altered");
    __CPROVER_assert(g_nprot >= 1 && g_prot[g_nprot - 1].prot == (PROT_READ | PROT_WRITE), "the region was made accessible before the canary was inspected");
    g_aborted = 1;
    __CPROVER_assume(0);
}
void randombytes_buf(void *const buf, const size_t size) { size_t i; for (i = 0; i < size && i < 16; i++) ((unsigned char *) buf)[i] = vin.canary[i]; }
void explicit_bzero(void *s, size_t n) { memset(s, 0, n); }

#include "sodium/utils.c"

static void init_(void)
{
    g_page = vin.page_sel == 0 ? 4096 : (vin.page_sel == 1 ? 16384 : 65536);
    g_nprot = g_nmap = g_nunmap = g_nlock = g_nunlock = 0; g_abort_expected = 0; v_misuse_expected = 0;
    _sodium_alloc_init();
}
static size_t round_up_(size_t x) { return (x + g_page - 1) & ~(g_page - 1); }

/* layout facts of a successful allocation */
static void check_layout_(unsigned char *user, size_t size)
{
    unsigned char *base = g_map_addr; size_t total = g_map_len, usz = round_up_(size + 16);
    VASSERT("mapping = header page + guard page + data pages + guard page", g_nmap == 1 && total == 3 * g_page + usz);
    VASSERT("the byte after the last user byte is the first byte of the trailing guard page", user + size == base + total - g_page);
    VASSERT("user region lies inside the data pages", user >= base + 2 * g_page + 16);
    VASSERT("leading guard page set to no-access", g_nprot >= 1 && g_prot[0].addr == base + g_page && g_prot[0].len == g_page && g_prot[0].prot == PROT_NONE);
    VASSERT("trailing guard page set to no-access", g_nprot >= 2 && g_prot[1].addr == base + total - g_page && g_prot[1].len == g_page && g_prot[1].prot == PROT_NONE);
    VASSERT("header page read-only and holding the size of the data pages", g_nprot == 3 && g_prot[2].addr == base && g_prot[2].len == g_page && g_prot[2].prot == PROT_READ && *(size_t *) base == usz);
    VASSERT("canary = the 16 bytes immediately before the user region", vin.alter_ix < 0 || vin.alter_ix > 15 || user[-16 + vin.alter_ix] == vin.canary[vin.alter_ix]);
    VASSERT("data pages locked", g_nlock == 1 && g_lock_addr == base + 2 * g_page && g_lock_len == usz);
}

void hf_malloc(void)
{
    VIN_GET(); init_();
    VASSUME(vin.page_sel >= 0 && vin.page_sel <= 2 && vin.size <= 3 * g_page + 17);
    unsigned char *p; errno = 0;
    VCALL(p = sodium_malloc(vin.size));
    if (vin.mmap_fails) {
        VASSERT("mapping failure makes the allocation fail cleanly", p == NULL && g_nprot == 0 && g_nunmap == 0);
    } else {
        VASSERT("allocation succeeds when the mapping does", p != NULL);
        check_layout_(p, vin.size);
        if (vin.gk < vin.size) VASSERT("user region filled with the 0xdb pattern", p[vin.gk] == 0xdb);
    }
    VREACH("hf_malloc");
}

void hf_malloc_huge(void)
{
    VIN_GET(); init_();
    VASSUME(vin.page_sel >= 0 && vin.page_sel <= 2 && vin.size >= SIZE_MAX - 4 * g_page);
    unsigned char *p; errno = 0;
    VCALL(p = sodium_malloc(vin.size));
    VASSERT("oversized request fails with ENOMEM and maps nothing", p == NULL && errno == ENOMEM && g_nmap == 0);
    VREACH("hf_malloc_huge");
}

/* count * size overflow => NULL / ENOMEM, nothing mapped (one-directional, as the property states).
 * The general statement needs a 64-bit divider against a 128-bit product (does not discharge, DESIGN T15):
 * decided for every count <= VSMALL with all 2^64 sizes and for every size <= VSMALL with all counts. */
#ifndef VSMALL
# define VSMALL 64
#endif
void hb_allocarray_overflow(void)
{
    VIN_GET(); init_();
    VASSUME(vin.page_sel >= 0 && vin.page_sel <= 2);
    VASSUME(vin.count <= VSMALL || vin.size <= VSMALL);
    unsigned __int128 prod = (unsigned __int128) vin.count * vin.size;
    VASSUME(prod > (unsigned __int128) SIZE_MAX);
    unsigned char *p; errno = 0;
    VCALL(p = sodium_allocarray(vin.count, vin.size));
    VASSERT("count*size overflow fails cleanly with ENOMEM and maps nothing", p == NULL && errno == ENOMEM && g_nmap == 0);
    VREACH("hb_allocarray_overflow");
}
void hf_allocarray_ok(void)
{
    VIN_GET(); init_();
    VASSUME(vin.page_sel >= 0 && vin.page_sel <= 2 && vin.count <= 8 && vin.size <= 512 && !vin.mmap_fails);
    unsigned char *p;
    VCALL(p = sodium_allocarray(vin.count, vin.size));
    VASSERT("small array allocation succeeds with the layout of sodium_malloc(count*size)", p != NULL);
    check_layout_(p, vin.count * vin.size);
    VREACH("hf_allocarray_ok");
}

void hf_mprotect(void)
{
    VIN_GET(); init_();
    VASSUME(vin.page_sel >= 0 && vin.page_sel <= 2 && vin.size <= 3 * g_page + 17 && !vin.mmap_fails && vin.prot_sel >= 0 && vin.prot_sel <= 2);
    unsigned char *p; int r = 9, want = vin.prot_sel == 0 ? PROT_NONE : (vin.prot_sel == 1 ? PROT_READ : (PROT_READ | PROT_WRITE));
    VCALL(p = sodium_malloc(vin.size));
    VASSUME(p != NULL);
    g_nprot = 0;
    VCALL(r = vin.prot_sel == 0 ? sodium_mprotect_noaccess(p) : (vin.prot_sel == 1 ? sodium_mprotect_readonly(p) : sodium_mprotect_readwrite(p)));
    VASSERT("one protection change with the requested mode", r == 0 && g_nprot == 1 && g_prot[0].prot == want);
    VASSERT("it covers the whole user region: all data pages, up to the trailing guard page",
            g_prot[0].addr == (unsigned char *) g_map_addr + 2 * g_page && (unsigned char *) g_prot[0].addr + g_prot[0].len == (unsigned char *) g_map_addr + g_map_len - g_page &&
            (unsigned char *) g_prot[0].addr <= p - 16 && p + vin.size == (unsigned char *) g_prot[0].addr + g_prot[0].len);
    VREACH("hf_mprotect");
}

void hf_free(void)
{
    VIN_GET(); init_();
    VASSUME(vin.page_sel >= 0 && vin.page_sel <= 2 && vin.size <= 3 * g_page + 17 && !vin.mmap_fails && vin.alter_ix >= 0 && vin.alter_ix <= 15);
    unsigned char *p;
    VCALL(p = sodium_malloc(vin.size));
    VASSUME(p != NULL);
    if (vin.alter) { VASSUME(vin.alter_val != p[-16 + vin.alter_ix]); p[-16 + vin.alter_ix] = vin.alter_val; }   /* underflow: any of the 16 bytes before the start */
    g_abort_expected = vin.alter != 0;
    g_nprot = 0;
    VREACH("hf_free");
    sodium_free(p);
    VASSERT("freeing a block with an altered canary terminates the process", !vin.alter);
    VASSERT("free first makes the whole mapping read-write (works from any protection state)", g_nprot >= 1 && g_prot[0].addr == g_map_addr && g_prot[0].len == g_map_len && g_prot[0].prot == (PROT_READ | PROT_WRITE));
    VASSERT("free unmaps exactly the original mapping", g_nunmap == 1 && g_unmap_addr == g_map_addr && g_unmap_len == g_map_len && g_nunlock == 1);
}
void hf_free_null(void)
{
    VIN_GET(); init_();
    sodium_free(NULL);
    VASSERT("sodium_free(NULL) is a no-op", g_nprot == 0 && g_nunmap == 0);
    VREACH("hf_free_null");
}
