/* C20: scrypt region allocation fails closed.  Real code: scrypt_platform.c (escrypt_alloc_region / free_region /
 * init_local / free_local) and escrypt_kdf_nosse's parameter checks and region growth.  mmap fails nondeterministically;
 * PBKDF2 and smix are assumed kernels that require their working memory to be live and large enough. */
#include "vharness.h"
#include <stdlib.h>
#include <errno.h>
#include <sys/mman.h>

struct vin_t { uint64_t N; uint32_t r, p; size_t buflen, presize; int fail[3]; };
struct vin_t nondet_vin(void);
struct vin_t vin;
VMISUSE_DEFINE

int g_alloc_failed; unsigned g_alloc_ix; void *g_map; size_t g_map_len; int g_map_live, g_bad_unmap, g_nmap;
void *mmap(void *addr, size_t len, int prot, int flags, int fd, off_t off)
{
    void *p; int f = g_alloc_ix < 3 ? vin.fail[g_alloc_ix] != 0 : 0; g_alloc_ix++; g_nmap++;
    (void) addr; (void) prot; (void) flags; (void) fd; (void) off;
    if (f) { g_alloc_failed = 1; errno = ENOMEM; return MAP_FAILED; }
    __CPROVER_assert(!g_map_live, "a second mapping is requested only after the first one was released");
    __CPROVER_assume(len <= 65536);
    p = malloc(len);
    __CPROVER_assume(p != NULL);
    g_map = p; g_map_len = len; g_map_live = 1;
    return p;
}
int munmap(void *addr, size_t len)
{
    if (!g_map_live || addr != g_map || len != g_map_len) { g_bad_unmap = 1; __CPROVER_assert(0, "munmap called on something that is not the live mapping"); return -1; }
    g_map_live = 0; free(addr);
    return 0;
}
#include "crypto_pwhash/scryptsalsa208sha256/crypto_scrypt.h"
#include "crypto_pwhash/scryptsalsa208sha256/pbkdf2-sha256.h"
size_t g_need_B;
void escrypt_PBKDF2_SHA256(const uint8_t *passwd, size_t passwdlen, const uint8_t *salt, size_t saltlen, uint64_t c, uint8_t *buf, size_t dkLen)
{
    (void) passwd; (void) passwdlen; (void) c;
    __CPROVER_assert(__CPROVER_r_ok(salt, saltlen) && __CPROVER_w_ok(buf, dkLen), "PBKDF2 reads and writes live memory of the stated sizes (working area allocated)");
}
#include "crypto_pwhash/scryptsalsa208sha256/scrypt_platform.c"
#include "crypto_pwhash/scryptsalsa208sha256/nosse/pwhash_scryptsalsa208sha256_nosse.c"

void hf_region(void)
{
    VIN_GET(); g_alloc_ix = 0; g_alloc_failed = 0; g_map_live = 0; g_bad_unmap = 0; g_nmap = 0;
    escrypt_region_t reg; void *p;
    VASSUME(vin.presize <= 4096);
    escrypt_init_local(&reg);
    p = escrypt_alloc_region(&reg, vin.presize);
    if (g_alloc_failed) {
        VASSERT("failed mapping: NULL returned and the region records no memory", p == NULL && reg.base == NULL && reg.aligned == NULL && reg.size == 0);
    } else {
        VASSERT("successful mapping: the region records the mapping and its size", p == g_map && reg.base == g_map && reg.aligned == g_map && reg.size == vin.presize);
    }
    VASSERT("free_region releases exactly what was mapped, once", escrypt_free_local(&reg) == 0 && !g_map_live && !g_bad_unmap && reg.base == NULL && reg.size == 0);
    VASSERT("freeing an empty region is harmless", escrypt_free_local(&reg) == 0 && !g_bad_unmap);
    VREACH("hf_region");
}

void hf_kdf(void)
{
    VIN_GET(); g_alloc_ix = 0; g_alloc_failed = 0; g_map_live = 0; g_bad_unmap = 0; g_nmap = 0;
    escrypt_local_t local; unsigned char pw[8], salt[8], out[64]; int r;
    VASSUME(vin.buflen <= 64 && vin.presize <= 1024 && vin.N <= 16 && vin.r <= 2 && vin.p <= 2);
    escrypt_init_local(&local);
    if (vin.presize) escrypt_alloc_region(&local, vin.presize);      /* an earlier, smaller working area may exist */
    r = escrypt_kdf_nosse(&local, pw, 8, salt, 8, vin.N, vin.r, vin.p, out, vin.buflen);
    VASSERT("a failed mapping makes the KDF return -1 (never success)", !g_alloc_failed || r == -1 || (local.size != 0 && g_map_live));
    VASSERT("success implies a live working area large enough for B, V and XY", r != 0 || (g_map_live && local.base == g_map && local.size >= (size_t) 128 * vin.r * vin.p + (size_t) 128 * vin.r * vin.N + 256 * vin.r + 64));
    escrypt_free_local(&local);
    VASSERT("nothing leaked, nothing unmapped twice", !g_map_live && !g_bad_unmap);
    VREACH("hf_kdf");
}
