/* The "$7$" string codec of scrypt (crypto_pwhash/scryptsalsa208sha256/crypto_scrypt-common.c), C08 / C12:
 * escrypt_gensalt_r, escrypt_parse_setting, encode64 / decode64, and the string assembly of escrypt_r with the KDF
 * itself as an assumed callee (arbitrary 32-byte hash or failure). */
#include "vharness.h"
#include <stdlib.h>
#include <string.h>
#define V_STUB_MEMZERO 1
#define V_MEMZERO_SILENT 1
#include "transcript.h"
#include "crypto_pwhash/scryptsalsa208sha256/crypto_scrypt.h"
struct vin_t { uint32_t nlog2, r, p; unsigned char salt[32], hash[32], set[16], pw[8]; int kdf_fail; size_t buflen, slen; unsigned char sbody[48]; };
struct vin_t nondet_vin(void);
struct vin_t vin;
VMISUSE_DEFINE
static unsigned n_kdf; static uint64_t k_N; static uint32_t k_r, k_p; static const uint8_t *k_salt; static size_t k_saltlen, k_buflen, k_pwlen; static const uint8_t *k_pw;
static int kdf_stub(escrypt_local_t *local, const uint8_t *passwd, size_t passwdlen, const uint8_t *salt, size_t saltlen, uint64_t N, uint32_t r, uint32_t p, uint8_t *buf, size_t buflen)
{ (void) local; n_kdf++; k_N = N; k_r = r; k_p = p; k_salt = salt; k_saltlen = saltlen; k_buflen = buflen; k_pw = passwd; k_pwlen = passwdlen; if (vin.kdf_fail) return -1; memcpy(buf, vin.hash, buflen < 32 ? buflen : 32); return 0; }
int escrypt_kdf_nosse(escrypt_local_t *local, const uint8_t *passwd, size_t passwdlen, const uint8_t *salt, size_t saltlen, uint64_t N, uint32_t r, uint32_t p, uint8_t *buf, size_t buflen) { return kdf_stub(local, passwd, passwdlen, salt, saltlen, N, r, p, buf, buflen); }
int escrypt_kdf_sse(escrypt_local_t *local, const uint8_t *passwd, size_t passwdlen, const uint8_t *salt, size_t saltlen, uint64_t N, uint32_t r, uint32_t p, uint8_t *buf, size_t buflen) { return kdf_stub(local, passwd, passwdlen, salt, saltlen, N, r, p, buf, buflen); }
int escrypt_init_local(escrypt_local_t *local) { (void) local; return 0; }
int escrypt_free_local(escrypt_local_t *local) { (void) local; return 0; }
int sodium_runtime_has_sse2(void) { return 0; }
static unsigned n_rand;
void randombytes_buf(void *const buf, const size_t size) { n_rand++; v_out(buf, size); }
#include "crypto_pwhash/scryptsalsa208sha256/crypto_scrypt-common.c"

/* reference alphabet of the format: ./0-9A-Za-z, value = position */
static int idx64(unsigned char c) { if (c == '.') return 0; if (c == '/') return 1; if (c >= '0' && c <= '9') return 2 + (c - '0'); if (c >= 'A' && c <= 'Z') return 12 + (c - 'A'); if (c >= 'a' && c <= 'z') return 38 + (c - 'a'); return -1; }

void hf_gensalt_parse(void)
{
    VIN_GET();
    /* precondition taken from the only call site (crypto_pwhash_scryptsalsa208sha256_str after pickparams: r = 8, p >= 1): both
       factors are at least 1, so r*p < 2^30 bounds each of them; with r = 0 the function's own guard lets a p >= 2^30 through
       and encodes it truncated - unreachable through the public API, noted in DESIGN.md */
    VASSUME(vin.nlog2 <= 63 && vin.r >= 1 && vin.p >= 1 && (uint64_t) vin.r * (uint64_t) vin.p < (1ULL << 30));
    uint8_t buf[64]; uint32_t n2 = 99, r2 = 99, p2 = 99; const uint8_t *end; uint8_t *ret; int i, ok = 1; uint32_t v;
    memset(buf, 0xA5, sizeof buf);
    ret = escrypt_gensalt_r(vin.nlog2, vin.r, vin.p, vin.salt, 32, buf, 58);
    VASSERT("gensalt: \"$7$\" + 1 + 5 + 5 parameter characters + 43 salt characters + NUL = 58 bytes fit exactly", ret == buf && buf[0] == '$' && buf[1] == '7' && buf[2] == '$' && buf[57] == 0 && buf[58] == 0xA5);
    for (i = 3; i < 57; i++) if (idx64(buf[i]) < 0) ok = 0;
    VASSERT("every character after the prefix is in the alphabet ./0-9A-Za-z", ok);
    VASSERT("N_log2 is one character, r and p are 30 bits little-endian in 5 characters each", idx64(buf[3]) == (int) vin.nlog2 &&
            ((uint32_t) idx64(buf[4]) | ((uint32_t) idx64(buf[5]) << 6) | ((uint32_t) idx64(buf[6]) << 12) | ((uint32_t) idx64(buf[7]) << 18) | ((uint32_t) idx64(buf[8]) << 24)) == vin.r &&
            ((uint32_t) idx64(buf[9]) | ((uint32_t) idx64(buf[10]) << 6) | ((uint32_t) idx64(buf[11]) << 12) | ((uint32_t) idx64(buf[12]) << 18) | ((uint32_t) idx64(buf[13]) << 24)) == vin.p);
    /* salt: 3 bytes -> 4 characters (24 bits little endian), the last 2 bytes -> 3 characters */
    ok = 1;
    for (i = 0; i < 10; i++) { v = vin.salt[3 * i] | ((uint32_t) vin.salt[3 * i + 1] << 8) | ((uint32_t) vin.salt[3 * i + 2] << 16);
        if (idx64(buf[14 + 4 * i]) != (int) (v & 63) || idx64(buf[15 + 4 * i]) != (int) ((v >> 6) & 63) || idx64(buf[16 + 4 * i]) != (int) ((v >> 12) & 63) || idx64(buf[17 + 4 * i]) != (int) ((v >> 18) & 63)) ok = 0; }
    v = vin.salt[30] | ((uint32_t) vin.salt[31] << 8);
    if (idx64(buf[54]) != (int) (v & 63) || idx64(buf[55]) != (int) ((v >> 6) & 63) || idx64(buf[56]) != (int) ((v >> 12) & 63)) ok = 0;
    VASSERT("the salt bytes are encoded 6 bits per character, little endian within groups of three bytes", ok);
    VASSERT("a buffer one byte shorter is refused", escrypt_gensalt_r(vin.nlog2, vin.r, vin.p, vin.salt, 32, buf, 57) == NULL);
    end = escrypt_parse_setting(buf, &n2, &r2, &p2);
    VASSERT("parse_setting(gensalt(N_log2, r, p)) returns exactly (N_log2, r, p) and points at the salt", end == buf + 14 && n2 == vin.nlog2 && r2 == vin.r && p2 == vin.p);
    VREACH("hf_gensalt_parse");
}
void hf_parse(void)
{
    VIN_GET();
    uint8_t s[16]; uint32_t n2 = 99, r2 = 99, p2 = 99; const uint8_t *end; int i, ok = 1; uint32_t r = 0, p = 0;
    for (i = 0; i < 16; i++) { VASSUME(vin.set[i] != 0); s[i] = vin.set[i]; }      /* the callers hand over strings of exactly 101 characters: no NUL here */
    if (!(s[0] == '$' && s[1] == '7' && s[2] == '$')) ok = 0;
    for (i = 3; i < 14; i++) if (idx64(s[i]) < 0) ok = 0;
    for (i = 0; i < 5; i++) { r |= (uint32_t) (idx64(s[4 + i]) & 63) << (6 * i); p |= (uint32_t) (idx64(s[9 + i]) & 63) << (6 * i); }
    end = escrypt_parse_setting(s, &n2, &r2, &p2);
    VASSERT("a setting is accepted exactly when it starts with \"$7$\" followed by 11 alphabet characters", (end != NULL) == ok);
    VASSERT("and then N_log2, r, p are the values of those characters (6 bits each, little endian)", end == NULL || (end == s + 14 && n2 == (uint32_t) idx64(s[3]) && r2 == r && p2 == p));
    VREACH("hf_parse");
}
void hf_escrypt_r(void)
{
    VIN_GET(); n_kdf = 0; n_rand = 0;
    VASSUME(vin.nlog2 <= 63 && vin.r < (1u << 30) && vin.p < (1u << 30) && vin.slen <= 43 && vin.buflen <= 102);
    uint8_t setting[64], buf[102], gs[64]; uint8_t *ret; escrypt_local_t local; size_t i, need; int ok = 1; uint32_t v;
    /* a well-formed setting: parameters through the real encoder, then slen arbitrary non-'$' non-NUL salt characters */
    VASSUME(vin.r >= 1 && vin.p >= 1 && (uint64_t) vin.r * vin.p < (1ULL << 30));
    VASSERT("setting built", escrypt_gensalt_r(vin.nlog2, vin.r, vin.p, vin.salt, 0, gs, 64) == gs);
    for (i = 0; i < 14; i++) setting[i] = gs[i];
    for (i = 0; i < 43; i++) { VASSUME(vin.sbody[i] != 0 && vin.sbody[i] != '$'); setting[14 + i] = i < vin.slen ? vin.sbody[i] : 0; }
    setting[14 + vin.slen] = 0;
    memset(buf, 0xA5, sizeof buf);
    ret = escrypt_r(&local, vin.pw, 8, setting, buf, vin.buflen);
    need = 14 + vin.slen + 1 + 43 + 1;
    if (need > vin.buflen) { VASSERT("an output buffer too small for prefix + salt + '$' + 43 hash characters + NUL is refused before hashing", ret == NULL && n_kdf == 0); }
    else if (vin.kdf_fail) { VASSERT("a failing KDF makes escrypt_r fail", ret == NULL && n_kdf == 1); }
    else {
        VASSERT("the KDF runs once with N = 2^N_log2, r, p, the salt characters of the setting and a 32-byte output", ret == buf && n_kdf == 1 && k_N == ((uint64_t) 1 << vin.nlog2) && k_r == vin.r && k_p == vin.p && k_salt == setting + 14 && k_saltlen == vin.slen && k_buflen == 32 && k_pw == vin.pw && k_pwlen == 8);
        for (i = 0; i < 14 + vin.slen; i++) if (buf[i] != setting[i]) ok = 0;
        VASSERT("output = setting (prefix and salt) || '$' || encoded hash || NUL", ok && buf[14 + vin.slen] == '$' && buf[need - 1] == 0);
        ok = 1;
        for (i = 0; i < 10; i++) { const uint8_t *q = buf + 15 + vin.slen + 4 * i; v = vin.hash[3 * i] | ((uint32_t) vin.hash[3 * i + 1] << 8) | ((uint32_t) vin.hash[3 * i + 2] << 16);
            if (idx64(q[0]) != (int) (v & 63) || idx64(q[1]) != (int) ((v >> 6) & 63) || idx64(q[2]) != (int) ((v >> 12) & 63) || idx64(q[3]) != (int) ((v >> 18) & 63)) ok = 0; }
        { const uint8_t *q = buf + 15 + vin.slen + 40; v = vin.hash[30] | ((uint32_t) vin.hash[31] << 8); if (idx64(q[0]) != (int) (v & 63) || idx64(q[1]) != (int) ((v >> 6) & 63) || idx64(q[2]) != (int) ((v >> 12) & 63)) ok = 0; }
        VASSERT("the 32 hash bytes are encoded 6 bits per character (43 characters)", ok);
    }
    VASSERT("the output buffer is randomised first (so a failure never leaves a usable string)", n_rand == 1);
    VREACH("hf_escrypt_r");
}
VNATIVE_MAIN(VENTRY)
