/* SipHash-2-4 (64- and 128-bit output) reference code vs the paper's definition for constant input lengths (C04) */
#include "vharness.h"
#include <stdlib.h>
#include "siphash_spec.h"
#if SIPX
# include "crypto_shorthash/siphash24/ref/shorthash_siphashx24_ref.c"
# define FN crypto_shorthash_siphashx24
# define OUTL 16
#else
# include "crypto_shorthash/siphash24/ref/shorthash_siphash24_ref.c"
# define FN crypto_shorthash_siphash24
# define OUTL 8
#endif
#ifndef NB
# define NB 8
#endif
struct vin_t { unsigned char in[NB + 1], k[16]; };
struct vin_t nondet_vin(void);
struct vin_t vin;
void hf_siphash(void)
{
    VIN_GET();
    unsigned char out[OUTL], want[OUTL], *in = malloc(NB ? NB : 1); int i, ok = 1;
#ifndef VNATIVE
    __CPROVER_assume(in != NULL);
#endif
    for (i = 0; i < NB; i++) in[i] = vin.in[i];
    FN(out, in, NB, vin.k);
    sp_siphash24(want, OUTL, vin.in, NB, vin.k);
    for (i = 0; i < OUTL; i++) if (out[i] != want[i]) ok = 0;
    VASSERT("SipHash-2-4 output equals the paper's definition", ok);
    VREACH("hf_siphash");
}
VNATIVE_MAIN(VENTRY)
