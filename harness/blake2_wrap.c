/* BLAKE2b API wrappers and the BLAKE2b-based KDF (C04, C12): parameter validation and argument forwarding.
 * The BLAKE2b core API (blake2b, blake2b_salt_personal, blake2b_init*, ...) is an assumed callee (logging stubs). */
#include "vharness.h"
#include <stdlib.h>
#include <string.h>
#include <errno.h>
#include "transcript.h"
#include "crypto_generichash/blake2b/ref/blake2.h"
struct vin_t { size_t outlen, keylen; unsigned long long inlen; uint64_t id; char ctx[8]; unsigned char key[32]; int key_null, which, ret; };
struct vin_t nondet_vin(void);
struct vin_t vin;
VMISUSE_DEFINE
static int n_calls, c_kind; static const void *c_out, *c_in, *c_key, *c_salt, *c_pers, *c_state; static unsigned c_outlen, c_keylen; static uint64_t c_inlen;
static unsigned char c_salt_b[16], c_pers_b[16], c_key_b[32];
int blake2b(uint8_t *out, const void *in, const void *key, const uint8_t outlen, const uint64_t inlen, uint8_t keylen)
{ n_calls++; c_kind = 1; c_out = out; c_in = in; c_key = key; c_outlen = outlen; c_inlen = inlen; c_keylen = keylen; return vin.ret; }
int blake2b_salt_personal(uint8_t *out, const void *in, const void *key, const uint8_t outlen, const uint64_t inlen, uint8_t keylen, const void *salt, const void *personal)
{ n_calls++; c_kind = 2; c_out = out; c_in = in; c_key = key; c_outlen = outlen; c_inlen = inlen; c_keylen = keylen; c_salt = salt; c_pers = personal;
  if (salt) memcpy(c_salt_b, salt, 16); if (personal) memcpy(c_pers_b, personal, 16); if (key && keylen == 32) memcpy(c_key_b, key, 32); return vin.ret; }
int blake2b_init(blake2b_state *S, const uint8_t outlen) { n_calls++; c_kind = 3; c_state = S; c_outlen = outlen; return 0; }
int blake2b_init_key(blake2b_state *S, const uint8_t outlen, const void *key, const uint8_t keylen) { n_calls++; c_kind = 4; c_state = S; c_outlen = outlen; c_key = key; c_keylen = keylen; return 0; }
int blake2b_init_salt_personal(blake2b_state *S, const uint8_t outlen, const void *salt, const void *personal) { n_calls++; c_kind = 5; c_state = S; c_outlen = outlen; c_salt = salt; c_pers = personal; return 0; }
int blake2b_init_key_salt_personal(blake2b_state *S, const uint8_t outlen, const void *key, const uint8_t keylen, const void *salt, const void *personal) { n_calls++; c_kind = 6; c_state = S; c_outlen = outlen; c_key = key; c_keylen = keylen; c_salt = salt; c_pers = personal; return 0; }
int blake2b_update(blake2b_state *S, const uint8_t *in, uint64_t inlen) { n_calls++; c_kind = 7; c_state = S; c_in = in; c_inlen = inlen; return 0; }
int blake2b_final(blake2b_state *S, uint8_t *out, uint8_t outlen) { n_calls++; c_kind = 8; c_state = S; c_out = out; c_outlen = outlen; return 0; }
int blake2b_pick_best_implementation(void) { return 0; }
#include "crypto_generichash/blake2b/ref/generichash_blake2b.c"
#include "crypto_kdf/blake2b/kdf_blake2b.c"

static unsigned char obuf[64], ibuf[8], salt[16], pers[16];
void hf_generichash_params(void)
{
    VIN_GET(); n_calls = 0;
    VASSUME(vin.which >= 0 && vin.which <= 3);
    const unsigned char *key = vin.key_null ? NULL : vin.key; int r, bad = vin.outlen == 0 || vin.outlen > 64 || vin.keylen > 64;
    crypto_generichash_blake2b_state st;
    if (vin.which == 0) r = crypto_generichash_blake2b(obuf, vin.outlen, ibuf, vin.inlen, key, vin.keylen);
    else if (vin.which == 1) r = crypto_generichash_blake2b_salt_personal(obuf, vin.outlen, ibuf, vin.inlen, key, vin.keylen, salt, pers);
    else if (vin.which == 2) r = crypto_generichash_blake2b_init(&st, key, vin.keylen, vin.outlen);
    else r = crypto_generichash_blake2b_init_salt_personal(&st, key, vin.keylen, vin.outlen, salt, pers);
    if (bad) { VASSERT("output length outside 1..64 or key longer than 64 is refused with -1 before the core is called", r == -1 && n_calls == 0); }
    else {
        VASSERT("in-range parameters reach the core exactly once with the same lengths", n_calls == 1 && c_outlen == vin.outlen);
        if (vin.which <= 1) VASSERT("one-shot: buffers, lengths, key (and salt / personalisation) forwarded unchanged, core status returned", r == vin.ret && c_out == obuf && c_in == ibuf && c_inlen == vin.inlen && c_key == key && c_keylen == vin.keylen && (vin.which == 0 ? c_kind == 1 : (c_kind == 2 && c_salt == salt && c_pers == pers)));
        if (vin.which == 2) VASSERT("init: keyed iff a non-empty key was given", r == 0 && c_state == (void *) &st && ((key == NULL || vin.keylen == 0) ? c_kind == 3 : (c_kind == 4 && c_key == key && c_keylen == vin.keylen)));
        if (vin.which == 3) VASSERT("init with salt/personal: keyed iff a non-empty key was given, salt and personalisation forwarded", r == 0 && c_salt == salt && c_pers == pers && ((key == NULL || vin.keylen == 0) ? c_kind == 5 : (c_kind == 6 && c_key == key && c_keylen == vin.keylen)));
    }
    VREACH("hf_generichash_params");
}

void hf_kdf(void)
{
    VIN_GET(); n_calls = 0; errno = 0;
    unsigned char sub[64]; int r, i, ok = 1;
    r = crypto_kdf_blake2b_derive_from_key(sub, vin.outlen, vin.id, vin.ctx, vin.key);
    if (vin.outlen < 16 || vin.outlen > 64) { VASSERT("subkey length outside 16..64 is refused with -1 / EINVAL, nothing computed", r == -1 && errno == EINVAL && n_calls == 0); }
    else {
        VASSERT("one keyed, salted, personalised BLAKE2b call over the empty message producing subkey_len bytes", n_calls == 1 && c_kind == 2 && c_out == sub && c_outlen == vin.outlen && c_inlen == 0 && c_keylen == 32 && v_eq(c_key_b, vin.key, 32) && r == vin.ret);
        for (i = 0; i < 8; i++) if (c_salt_b[i] != (unsigned char) (vin.id >> (8 * i)) || c_salt_b[8 + i] != 0) ok = 0;
        VASSERT("salt = le64(subkey_id) || 0^8", ok);
        ok = 1; for (i = 0; i < 8; i++) if (c_pers_b[i] != (unsigned char) vin.ctx[i] || c_pers_b[8 + i] != 0) ok = 0;
        VASSERT("personalisation = context || 0^8", ok);
    }
    VREACH("hf_kdf");
}
VNATIVE_MAIN(VENTRY)
