/* generic stream front end (C03): crypto_stream.c forwards to XSalsa20 (logging stubs here; own obligations: c03.f.xsalsa20*). */
#include "vharness.h"
#include <stdlib.h>
#include <string.h>
#include "transcript.h"
#include "crypto_stream.h"
#include "randombytes.h"
struct vin_t { unsigned long long len; int ret; };
struct vin_t nondet_vin(void);
struct vin_t vin;
static int n_call, which; static const void *a0, *a1, *a2, *a3; static unsigned long long alen;
#define REC(w, p0, p1, p2, p3, l) do { n_call++; which = (w); a0 = (p0); a1 = (p1); a2 = (p2); a3 = (p3); alen = (l); } while (0)
int crypto_stream_xsalsa20(unsigned char *c, unsigned long long clen, const unsigned char *n, const unsigned char *k) { REC(1, c, n, k, NULL, clen); return vin.ret; }
int crypto_stream_xsalsa20_xor(unsigned char *c, const unsigned char *m, unsigned long long mlen, const unsigned char *n, const unsigned char *k) { REC(2, c, m, n, k, mlen); return vin.ret; }
void randombytes_buf(void *const buf, const size_t size) { REC(3, buf, NULL, NULL, NULL, size); }
#include "crypto_stream/crypto_stream.c"
#define FWD(w, p0, p1, p2, p3, l) (n_call == 1 && which == (w) && a0 == (const void *) (p0) && a1 == (const void *) (p1) && a2 == (const void *) (p2) && a3 == (const void *) (p3) && alen == (l))
void hf_generic_c03(void)
{
    VIN_GET();
    unsigned char A[4], B[4], C[4], D[4]; unsigned long long n = vin.len; int r;
    n_call = 0; r = crypto_stream(A, n, B, C);         VASSERT("crypto_stream = XSalsa20 keystream on (c, clen, n, k), every length", FWD(1, A, B, C, NULL, n) && r == vin.ret);
    n_call = 0; r = crypto_stream_xor(A, B, n, C, D);  VASSERT("crypto_stream_xor = XSalsa20 XOR on (c, m, mlen, n, k), every length", FWD(2, A, B, C, D, n) && r == vin.ret);
    n_call = 0; crypto_stream_keygen(A);               VASSERT("crypto_stream_keygen draws 32 bytes", FWD(3, A, NULL, NULL, NULL, 32));
    VASSERT("size accessors", crypto_stream_keybytes() == 32 && crypto_stream_noncebytes() == 24 && crypto_stream_messagebytes_max() == SIZE_MAX);
    VREACH("hf_generic_c03");
}
VNATIVE_MAIN(VENTRY)
