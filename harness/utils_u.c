/* dfcc entry points for the unbounded obligations on utils.c: each calls the real function once with
 * unconstrained arguments; the contract (contracts/utils_c14.h) supplies the precondition. */
#include "sodium/utils.c"

size_t g_k, g_j; int g_case; unsigned char *g_a0;

void sodium_misuse(void) { __CPROVER_assert(0, "sodium_misuse reachable"); __CPROVER_assume(0); }

void hu_memcmp(void)    { const void *a; const void *b; size_t n; sodium_memcmp(a, b, n); }
void hu_is_zero(void)   { const unsigned char *a; size_t n; sodium_is_zero(a, n); }
void hu_compare(void)   { const unsigned char *a; const unsigned char *b; size_t n; sodium_compare(a, b, n); }
void hu_increment(void) { unsigned char *a; size_t n; sodium_increment(a, n); }
void hu_add(void)       { unsigned char *a; const unsigned char *b; size_t n; sodium_add(a, b, n); }
void hu_sub(void)       { unsigned char *a; const unsigned char *b; size_t n; sodium_sub(a, b, n); }
void hu_memzero(void)   { void *a; size_t n; sodium_memzero(a, n); }
