/* dfcc entry points for the unbounded obligations on utils.c: each calls the real function once with
 * unconstrained arguments; the contract (contracts/utils_c14.h) supplies the precondition. */
#include "sodium/utils.c"

size_t g_k, g_j; int g_case; unsigned char *g_a0; unsigned char g_old, g_old0, g_old1;

/* assumed libc contract: explicit_bzero(s, n) sets s[0..n) to zero */
void explicit_bzero(void *s, size_t n) { __builtin_memset(s, 0, n); }

void sodium_misuse(void) { __CPROVER_assert(0, "sodium_misuse reachable"); __CPROVER_assume(0); }

void hu_memcmp(void)    { const void *a; const void *b; size_t n; sodium_memcmp(a, b, n); }
void hu_is_zero(void)   { const unsigned char *a; size_t n; sodium_is_zero(a, n); }
void hu_compare(void)   { const unsigned char *a; const unsigned char *b; size_t n; sodium_compare(a, b, n); }
void hu_increment(void) { unsigned char *a; size_t n; sodium_increment(a, n); }
void hu_add(void)       { unsigned char *a; const unsigned char *b; size_t n; sodium_add(a, b, n); }
void hu_sub(void)       { unsigned char *a; const unsigned char *b; size_t n; sodium_sub(a, b, n); }
void hu_memzero(void)   { void *a; size_t n; sodium_memzero(a, n); }
void hu_pad(void)       { size_t *p; unsigned char *b; size_t u, bs, m; sodium_pad(p, b, u, bs, m); }
void hu_unpad(void)     { size_t *p; const unsigned char *b; size_t pl, bs; sodium_unpad(p, b, pl, bs); }
