/* Ed25519ph multi-part API (C06, C12) over the detached primitives and SHA-512 as assumed callees. */
#include "vharness.h"
#include <stdlib.h>
#include <string.h>
#ifndef VNATIVE
# define V_STUB_MEMMOVE 1
#endif
#include "transcript.h"
#include "crypto_hash_sha512.h"
struct vin_t { unsigned long long mlen; unsigned char ph[64], sk[64], pk[32], sig[64]; int ret, lenp_null; long off; size_t g; };
struct vin_t nondet_vin(void);
struct vin_t vin;
static int n_init, n_upd, n_fin, n_det, n_ver, d_pre; static const void *u_ptr, *d_sig, *d_m, *d_sk, *d_pk; static unsigned long long u_len, d_mlen; static unsigned char d_m_bytes[64], d_m_g; static int d_m_g_valid;
int crypto_hash_sha512_init(crypto_hash_sha512_state *s) { (void) s; n_init++; return 0; }
int crypto_hash_sha512_update(crypto_hash_sha512_state *s, const unsigned char *in, unsigned long long inlen) { (void) s; n_upd++; u_ptr = in; u_len = inlen; return 0; }
int crypto_hash_sha512_final(crypto_hash_sha512_state *s, unsigned char *out) { (void) s; n_fin++; memcpy(out, vin.ph, 64); return 0; }
#if PART == 0
int _crypto_sign_ed25519_detached(unsigned char *sig, unsigned long long *siglen_p, const unsigned char *m, unsigned long long mlen, const unsigned char *sk, int prehashed)
{ n_det++; d_sig = sig; d_mlen = mlen; d_sk = sk; d_pre = prehashed; if (mlen == 64) memcpy(d_m_bytes, m, 64); if (siglen_p) *siglen_p = 64; memcpy(sig, vin.sig, 64); return 0; }
int _crypto_sign_ed25519_verify_detached(const unsigned char *sig, const unsigned char *m, unsigned long long mlen, const unsigned char *pk, int prehashed)
{ n_ver++; d_sig = sig; d_mlen = mlen; d_pk = pk; d_pre = prehashed; if (mlen == 64) memcpy(d_m_bytes, m, 64); return vin.ret ? -1 : 0; }
#include "crypto_sign/ed25519/sign_ed25519.c"
void hf_ph(void)
{
    VIN_GET(); n_init = n_upd = n_fin = n_det = n_ver = 0;
    VASSUME(vin.mlen <= 65535);
    crypto_sign_ed25519ph_state st; unsigned char *m = malloc(vin.mlen ? vin.mlen : 1), sig[64]; unsigned long long sl = 9; int r;
#ifndef VNATIVE
    __CPROVER_assume(m != NULL);
#endif
    crypto_sign_ed25519ph_init(&st); crypto_sign_ed25519ph_update(&st, m, vin.mlen);
    VASSERT("ph: init / update feed the message to SHA-512", n_init == 1 && n_upd == 1 && u_ptr == m && u_len == vin.mlen);
    r = crypto_sign_ed25519ph_final_create(&st, sig, &sl, vin.sk);
    VASSERT("ph sign: the detached signature over the 64-byte SHA-512 pre-hash with the dom2 (pre-hashed) flag set", r == 0 && n_fin == 1 && n_det == 1 && d_sig == sig && d_mlen == 64 && d_sk == vin.sk && d_pre == 1 && v_eq(d_m_bytes, vin.ph, 64) && v_eq(sig, vin.sig, 64));
    r = crypto_sign_ed25519ph_final_verify(&st, vin.sig, vin.pk);
    VASSERT("ph verify: detached verification of the pre-hash with the pre-hashed flag; its verdict is returned", n_ver == 1 && d_mlen == 64 && d_pk == vin.pk && d_pre == 1 && v_eq(d_m_bytes, vin.ph, 64) && r == (vin.ret ? -1 : 0));
    VREACH("hf_ph");
}
#endif
VNATIVE_MAIN(VENTRY)
