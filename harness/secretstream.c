/* crypto_secretstream_xchacha20poly1305 (C09, C02, C18, C12): the real push / pull / rekey / init code against the ghost
 * transcript of the primitives.  sodium_increment, sodium_is_zero, sodium_memcmp, sodium_memzero keep their real bodies
 * (utils.c; proved in C14).  State transition specification ss_next() written once from the documentation. */
#include "vharness.h"
#include <stdlib.h>
#define V_STUB_CHACHA20 1
#define V_STUB_HCHACHA20 1
#define V_STUB_POLY1305 1
#define V_POLY_STREAM 1
#define V_STUB_RANDOMBYTES 1
#include "transcript.h"
#ifndef VNATIVE
void explicit_bzero(void *s, size_t n) { memset(s, 0, n); }   /* assumed libc contract */
#endif
#include "sodium/utils.c"
#include "crypto_secretstream/xchacha20poly1305/secretstream_xchacha20poly1305.c"

#ifndef VLMAX
# define VLMAX 65535ULL
#endif
typedef crypto_secretstream_xchacha20poly1305_state ss_state;

struct vin_t {
    unsigned long long mlen, adlen, inlen, gm; size_t gk; int lenp_null, tagp_null; unsigned char mold, tag;
    unsigned char k[32], nonce[12], pad[8];                /* the state before the call */
    unsigned char ks0[64], xb[64], xb2[64], mac[16], stored_mac[16], in0, hk[32], header[24], key[32];
};
struct vin_t nondet_vin(void);
struct vin_t vin;
VMISUSE_DEFINE

static void *buf_(unsigned long long n)
{
    void *p = malloc(n ? n : 1);
#ifndef VNATIVE
    __CPROVER_assume(p != NULL);
    if (n == 0) { free(p); p = malloc(0); __CPROVER_assume(p != NULL); }
#else
    memset(p, 0x33, n ? n : 1);
#endif
    return p;
}

static ss_state st0_;                 /* copy of the state before the call */
static unsigned char blk_tag_[64];    /* expected input of the tag block: tag || 0^63 */
static unsigned char blk_rekey_[40];  /* expected input of the rekey block: k || inonce' */
static unsigned char nonce_after_[12];
static unsigned char macblk_[64];     /* expected MAC input for the tag block */

static void setup_(ss_state *st)
{
    int i;
    for (i = 0; i < 32; i++) st->k[i] = vin.k[i];
    for (i = 0; i < 12; i++) st->nonce[i] = vin.nonce[i];
    for (i = 0; i < 8; i++) st->_pad[i] = vin.pad[i];
    st0_ = *st;
    v_ks0 = vin.ks0; v_tag = vin.mac; v_subkey = vin.hk; v_xbs[0] = vin.xb; v_xbs[1] = vin.xb2; v_short_xor_count = 0;
    v_nlog = 0; v_log_overflow = 0; v_misuse_expected = 0; v_mac_g = vin.gm;
    v_ref_key = vin.k; v_ref_na = vin.nonce;
}

/* Documented state transition after a chunk with authenticator mac and (plaintext) tag:
 *   inonce ^= mac[0..8);  counter += 1 (32-bit little endian);
 *   if (tag & TAG_REKEY) or counter == 0:  (k || inonce) ^= ChaCha20-IETF(k, counter || inonce)[0..40), counter := 1
 * The keystream XOR of the rekey step is the arbitrary-but-known block xb2 (assumed primitive). */
static void ss_next(ss_state *e, const ss_state *o, const unsigned char *mac, unsigned char tag, int *rekeyed)
{
    int i; uint32_t ctr;
    *e = *o;
    for (i = 0; i < 8; i++) e->nonce[4 + i] = o->nonce[4 + i] ^ mac[i];
    ctr = (uint32_t) o->nonce[0] | ((uint32_t) o->nonce[1] << 8) | ((uint32_t) o->nonce[2] << 16) | ((uint32_t) o->nonce[3] << 24);
    ctr++;
    for (i = 0; i < 4; i++) e->nonce[i] = (unsigned char) (ctr >> (8 * i));
    for (i = 0; i < 12; i++) nonce_after_[i] = e->nonce[i];
    *rekeyed = (tag & crypto_secretstream_xchacha20poly1305_TAG_REKEY) != 0 || ctr == 0;
    if (*rekeyed) {
        for (i = 0; i < 32; i++) e->k[i] = vin.xb2[i];
        for (i = 0; i < 8; i++) e->nonce[4 + i] = vin.xb2[32 + i];
        e->nonce[0] = 1; e->nonce[1] = e->nonce[2] = e->nonce[3] = 0;
    }
}
static int st_eq_(const ss_state *a, const ss_state *b)
{
    return v_eq(a->k, b->k, 32) && v_eq(a->nonce, b->nonce, 12) && v_eq(a->_pad, b->_pad, 8);
}
static void prep_refs_(unsigned char tagbyte_in, unsigned char block0_after)
{
    int i;
    for (i = 0; i < 64; i++) blk_tag_[i] = 0;
    blk_tag_[0] = tagbyte_in;
    v_ref_blks[0] = blk_tag_; v_ref_blk_lens[0] = 64;
    for (i = 0; i < 64; i++) macblk_[i] = vin.xb[i];
    macblk_[0] = block0_after;
    v_ref_d64 = macblk_;
    /* rekey block input: k || (inonce ^ mac[0..8)) ; nonce of the rekey XOR = incremented counter || updated inonce */
    for (i = 0; i < 32; i++) blk_rekey_[i] = vin.k[i];
    for (i = 0; i < 8; i++) blk_rekey_[32 + i] = vin.nonce[4 + i] ^ vin.mac[i];
    v_ref_blks[1] = blk_rekey_; v_ref_blk_lens[1] = 40;
}

/* Events are looked up by kind (and block counter), not by position, and the MAC input is checked as ONE byte stream
 * (total length and the byte at an arbitrary ghost offset): the checks do not depend on how the code chunks its Poly1305
 * updates or orders independent calls.  Orderings that matter follow from values: the one-time key equals keystream
 * block 0; the MACed tag block equals the encrypted block; on push the MACed ciphertext byte equals the final output. */
static unsigned count_(int op) { unsigned i, n = 0; for (i = 0; i < V_LOG_MAX; i++) if (i < v_nlog && v_log[i].op == op) n++; return n; }
static unsigned first_(int op) { unsigned i, r = 0; int f = 0; for (i = 0; i < V_LOG_MAX; i++) if (!f && i < v_nlog && v_log[i].op == op) { r = i; f = 1; } return r; }
static unsigned count_xor_(unsigned long long ic) { unsigned i, n = 0; for (i = 0; i < V_LOG_MAX; i++) if (i < v_nlog && v_log[i].op == V_OP_XOR && v_log[i].ic == ic) n++; return n; }
static unsigned first_xor_(unsigned long long ic) { unsigned i, r = 0; int f = 0; for (i = 0; i < V_LOG_MAX; i++) if (!f && i < v_nlog && v_log[i].op == V_OP_XOR && v_log[i].ic == ic) { r = i; f = 1; } return r; }
static unsigned long long off_blk_(unsigned long long adlen) { return adlen + ((16 - (adlen & 15)) & 15); }
static unsigned long long mac_total_(unsigned long long mlen, unsigned long long adlen) { return off_blk_(adlen) + 64 + mlen + ((0x10 - 64 + mlen) & 0xf) + 16; }
static int in_c_(unsigned long long mlen, unsigned long long adlen) { return vin.gm >= off_blk_(adlen) + 64 && vin.gm - off_blk_(adlen) - 64 < mlen; }
static unsigned char mac_expected_(unsigned long long g, unsigned char cbyte, unsigned long long mlen, const unsigned char *ad, unsigned long long adlen)
{
    unsigned long long ob = off_blk_(adlen), ol = ob + 64 + mlen + ((0x10 - 64 + mlen) & 0xf);
    if (g < adlen) return ad[g];
    if (g < ob) return 0;
    if (g < ob + 64) return macblk_[g - ob];
    if (g < ob + 64 + mlen) return cbyte;
    if (g < ol) return 0;
    if (g < ol + 8) return (unsigned char) (adlen >> (8 * (g - ol)));
    return (unsigned char) ((64 + mlen) >> (8 * (g - ol - 8)));
}
/* the part of a chunk common to push and pull; returns the output pointer of the Poly1305 final */
static const void *chunk_transcript_(const unsigned char *ad, unsigned long long adlen, unsigned char cbyte, unsigned long long mlen)
{
    unsigned i = first_(V_OP_STREAM);
    VASSERT("Poly1305 key block = keystream block 0 under (state nonce, state key)", count_(V_OP_STREAM) == 1 && V_EV(i).op == V_OP_STREAM && V_EV(i).cipher == V_C_CHACHA20_IETF && V_EV(i).len == 64 && (V_EV(i).flags & V_F_N_A) && (V_EV(i).flags & V_F_K_USER));
    i = first_(V_OP_POLY_INIT);
    VASSERT("one-time key = first 32 bytes of it; one MAC computation", count_(V_OP_POLY_INIT) == 1 && V_EV(i).op == V_OP_POLY_INIT && (V_EV(i).flags & V_F_K_KS0));
    const void *ps = V_EV(i).st;
    i = first_xor_(1);
    VASSERT("tag block = (tag || 0^63) XOR keystream block 1", count_xor_(1) == 1 && V_EV(i).op == V_OP_XOR && V_EV(i).cipher == V_C_CHACHA20_IETF && V_EV(i).len == 64 && V_EV(i).ic == 1 && V_EV(i).out == V_EV(i).in &&
            (V_EV(i).flags & V_F_N_A) && (V_EV(i).flags & V_F_K_USER) && (V_EV(i).flags & V_F_BLKREF));
    VASSERT("all MAC input goes into that one Poly1305 state", !v_mac_bad_st);
    VASSERT("MAC input length = |ad| + pad16 + 64 + |c| + ((16 - 64 + mlen) & 15) + 8 + 8 (the documented, interoperable padding quirk)", v_mac_total == mac_total_(mlen, adlen));
    VASSERT("MAC input = ad || 0-pad || encrypted tag block || ciphertext || 0-pad || le64(adlen) || le64(64 + mlen), byte for byte (arbitrary offset)",
            v_mac_has == (vin.gm < mac_total_(mlen, adlen)) && (!v_mac_has || v_mac_gbyte == mac_expected_(vin.gm, cbyte, mlen, ad, adlen)));
    i = first_(V_OP_POLY_FINAL);
    VASSERT("authenticator = Poly1305 final of that state, once", count_(V_OP_POLY_FINAL) == 1 && V_EV(i).op == V_OP_POLY_FINAL && V_EV(i).st == ps);
    VASSERT("no other kind of primitive call", count_(V_OP_HCHACHA) == 0 && count_(V_OP_RANDOM) == 0 && count_(V_OP_POLY_ONESHOT) == 0 && count_(V_OP_POLY_VERIFY) == 0 && !v_log_overflow);
    return V_EV(i).out;
}
static void rekey_event_(int rekeyed)
{
    unsigned i = first_xor_(0);
    if (rekeyed)
        VASSERT("rekey: (k || inonce) XOR ChaCha20-IETF keystream under the incremented nonce and the old key, 40 bytes in place, once",
                count_xor_(0) == 1 && V_EV(i).op == V_OP_XOR && V_EV(i).cipher == V_C_CHACHA20_IETF && V_EV(i).len == 40 && V_EV(i).ic == 0 && V_EV(i).out == V_EV(i).in &&
                (V_EV(i).flags & V_F_N_B) && (V_EV(i).flags & V_F_K_USER) && (V_EV(i).flags & V_F_BLKREF));
    else
        VASSERT("no rekeying unless the tag asks for it or the counter wraps", count_xor_(0) == 0);
}

void hf_pull(void)
{
    VIN_GET(); ss_state st; setup_(&st);
    VASSUME(vin.inlen <= VLMAX + 17 && vin.adlen <= VLMAX);
    unsigned long long mlen = vin.inlen >= 17 ? vin.inlen - 17 : 0, mlen_out = 99; unsigned char tag_out = 0x77;
    unsigned char *in = buf_(vin.inlen), *m = buf_(mlen), *ad = buf_(vin.adlen); int r = 9, j, have_gk = vin.gk < mlen, rekeyed = 0;
    ss_state exp;
    if (vin.inlen >= 17) { in[0] = vin.in0; for (j = 0; j < 16; j++) in[1 + mlen + j] = vin.stored_mac[j]; }
    if (have_gk) m[vin.gk] = vin.mold;
    unsigned char cbyte = (vin.inlen >= 17 && in_c_(mlen, vin.adlen)) ? in[1 + (vin.gm - off_blk_(vin.adlen) - 64)] : 0;      /* the ciphertext as given */
    prep_refs_(vin.in0, vin.in0);
    ss_next(&exp, &st0_, vin.mac, vin.xb[0], &rekeyed);     /* tag = first byte of the decrypted tag block */
    v_ref_nb = nonce_after_;
    VCALL(r = crypto_secretstream_xchacha20poly1305_pull(&st, m, vin.lenp_null ? NULL : &mlen_out, vin.tagp_null ? NULL : &tag_out, in, vin.inlen, ad, vin.adlen));
    if (VMISUSED()) return;
    if (vin.inlen < 17) {
        VASSERT("chunk shorter than tag byte + authenticator is rejected without any primitive call", r == -1 && v_nlog == 0);
    } else {
        int ok = v_eq(vin.mac, vin.stored_mac, 16);
        (void) chunk_transcript_(ad, vin.adlen, cbyte, mlen);
        VASSERT("accepted iff the recomputed authenticator equals the stored one in all 16 bytes", (r == 0) == ok);
        VASSERT("failure is -1", r == 0 || r == -1);
        if (ok) {
            unsigned i = first_xor_(2);
            VASSERT("plaintext = ciphertext XOR keystream from block counter 2, one pass",
                    count_xor_(2) == 1 && V_EV(i).op == V_OP_XOR && V_EV(i).cipher == V_C_CHACHA20_IETF && V_EV(i).out == m && V_EV(i).in == in + 1 && V_EV(i).len == mlen && V_EV(i).ic == 2 && (V_EV(i).flags & V_F_N_A) && (V_EV(i).flags & V_F_K_USER));
            rekey_event_(rekeyed);
            VASSERT("no further primitive calls", v_nlog == 5u + (rekeyed ? 1u : 0u));
            VASSERT("state advances by the documented transition (same function as push)", st_eq_(&st, &exp));
            VASSERT("message length and tag reported", (vin.lenp_null || mlen_out == mlen) && (vin.tagp_null || tag_out == vin.xb[0]));
        } else {
            VASSERT("no keystream applied to the output, no rekeying, when the authenticator does not match", v_nlog == 4 && count_xor_(2) == 0 && count_xor_(0) == 0);
        }
    }
    if (r != 0) {
        VASSERT("a rejected pull leaves all 52 state bytes unchanged", st_eq_(&st, &st0_));
        VASSERT("a rejected pull reports length 0 and tag 0xff", (vin.lenp_null || mlen_out == 0) && (vin.tagp_null || tag_out == 0xff));
        if (have_gk) VASSERT("a rejected pull does not touch the output buffer", m[vin.gk] == vin.mold);
    }
    VREACH("hf_pull");
}

void hf_push(void)
{
    VIN_GET(); ss_state st; setup_(&st);
    VASSUME(vin.mlen <= VLMAX && vin.adlen <= VLMAX);
    unsigned long long outlen = 99;
    unsigned char *out = buf_(vin.mlen + 17), *m = buf_(vin.mlen), *ad = buf_(vin.adlen); int r = 9, rekeyed = 0;
    ss_state exp;
    prep_refs_(vin.tag, vin.xb[0]);
    ss_next(&exp, &st0_, vin.mac, vin.tag, &rekeyed);
    v_ref_nb = nonce_after_;
    VCALL(r = crypto_secretstream_xchacha20poly1305_push(&st, out, vin.lenp_null ? NULL : &outlen, m, vin.mlen, ad, vin.adlen, vin.tag));
    if (VMISUSED()) return;
    {
        unsigned char cbyte = in_c_(vin.mlen, vin.adlen) ? out[1 + (vin.gm - off_blk_(vin.adlen) - 64)] : 0;        /* the ciphertext as finally written */
        const void *fo = chunk_transcript_(ad, vin.adlen, cbyte, vin.mlen);
        unsigned i = first_xor_(2);
        VASSERT("ciphertext = message XOR keystream from block counter 2, one pass", count_xor_(2) == 1 && V_EV(i).op == V_OP_XOR && V_EV(i).cipher == V_C_CHACHA20_IETF && V_EV(i).out == out + 1 && V_EV(i).in == m && V_EV(i).len == vin.mlen && V_EV(i).ic == 2 && (V_EV(i).flags & V_F_N_A) && (V_EV(i).flags & V_F_K_USER));
        VASSERT("authenticator written after the ciphertext", fo == out + 1 + vin.mlen);
        rekey_event_(rekeyed);
        VASSERT("no further primitive calls", v_nlog == 5u + (rekeyed ? 1u : 0u));
    }
    VASSERT("returns 0, chunk = encrypted tag byte || ciphertext || authenticator, length mlen + 17", r == 0 && out[0] == vin.xb[0] && v_eq(out + 1 + vin.mlen, vin.mac, 16) && (vin.lenp_null || outlen == vin.mlen + 17));
    VASSERT("state advances by the documented transition (same function as pull)", st_eq_(&st, &exp));
    VREACH("hf_push");
}

void hf_push_toolong(void)
{
    VIN_GET(); ss_state st; setup_(&st);
    VASSUME(vin.mlen > crypto_secretstream_xchacha20poly1305_MESSAGEBYTES_MAX);
    unsigned char d[32]; unsigned long long ol;
    v_misuse_expected = 1;
    VREACH("hf_push_toolong");
    VCALL(crypto_secretstream_xchacha20poly1305_push(&st, d, &ol, d, vin.mlen, d, 0, 0));
}

void hf_rekey(void)
{
    VIN_GET(); ss_state st, exp; int i; setup_(&st);
    for (i = 0; i < 32; i++) blk_rekey_[i] = vin.k[i];
    for (i = 0; i < 8; i++) blk_rekey_[32 + i] = vin.nonce[4 + i];
    v_ref_blks[0] = blk_rekey_; v_ref_blk_lens[0] = 40;
    crypto_secretstream_xchacha20poly1305_rekey(&st);
    exp = st0_;
    for (i = 0; i < 32; i++) exp.k[i] = vin.xb[i];
    for (i = 0; i < 8; i++) exp.nonce[4 + i] = vin.xb[32 + i];
    exp.nonce[0] = 1; exp.nonce[1] = exp.nonce[2] = exp.nonce[3] = 0;
    VASSERT("explicit rekey: one 40-byte in-place XOR of k || inonce under (nonce, k)", v_nlog == 1 && V_EV(0).op == V_OP_XOR && V_EV(0).cipher == V_C_CHACHA20_IETF && V_EV(0).len == 40 && V_EV(0).ic == 0 &&
            V_EV(0).out == V_EV(0).in && (V_EV(0).flags & V_F_N_A) && (V_EV(0).flags & V_F_K_USER) && (V_EV(0).flags & V_F_BLKREF));
    VASSERT("explicit rekey: new key and inonce from that block, counter := 1", st_eq_(&st, &exp));
    VREACH("hf_rekey");
}

void hf_init(void)
{
    VIN_GET(); ss_state a, b; int i; unsigned char *hdr = buf_(24);
    setup_(&a); v_ref_key = vin.key; v_ref_na = vin.header;
    v_nlog = 0;
    crypto_secretstream_xchacha20poly1305_init_pull(&b, vin.header, vin.key);
    VASSERT("init_pull: k = HChaCha20(key, header[0..16))", v_nlog == 1 && V_EV(0).op == V_OP_HCHACHA && (V_EV(0).flags & V_F_N_A) && (V_EV(0).flags & V_F_K_USER) && V_EV(0).st == NULL && v_eq(b.k, vin.hk, 32));
    VASSERT("init_pull: counter = 1, inonce = header[16..24), padding zero", b.nonce[0] == 1 && b.nonce[1] == 0 && b.nonce[2] == 0 && b.nonce[3] == 0 && v_eq(b.nonce + 4, vin.header + 16, 8) && v_is_zero(b._pad, 8));
    v_nlog = 0; v_ref_na = NULL;
    crypto_secretstream_xchacha20poly1305_init_push(&a, hdr, vin.key);
    VASSERT("init_push: 24 header bytes requested from the random source, then k = HChaCha20(key, header[0..16))",
            v_nlog == 2 && V_EV(0).op == V_OP_RANDOM && V_EV(0).out == hdr && V_EV(0).len == 24 && V_EV(1).op == V_OP_HCHACHA && V_EV(1).in == hdr && (V_EV(1).flags & V_F_K_USER) && V_EV(1).st == NULL);
    VASSERT("init_push: same state as init_pull from that header", v_eq(a.k, vin.hk, 32) && a.nonce[0] == 1 && a.nonce[1] == 0 && a.nonce[2] == 0 && a.nonce[3] == 0 && v_eq(a.nonce + 4, hdr + 16, 8) && v_is_zero(a._pad, 8));
    (void) i;
    VREACH("hf_init");
}

void hf_keygen(void)
{
    VIN_GET(); unsigned char *k = buf_(32); v_nlog = 0;
    crypto_secretstream_xchacha20poly1305_keygen(k);
    VASSERT("keygen = one request of 32 bytes", v_nlog == 1 && V_EV(0).op == V_OP_RANDOM && V_EV(0).out == k && V_EV(0).len == 32);
    VREACH("hf_keygen");
}

VNATIVE_MAIN(VENTRY)
