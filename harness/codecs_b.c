/* Direct (replayable) harnesses for codecs.c (C15).  Specification side: straightforward reference codecs written from
 * RFC 4648 and the documented API behaviour (table look-ups, no bit tricks). */
#include "vharness.h"
#include <stdlib.h>
#include <string.h>
#include "sodium/codecs.c"

#ifndef VTXT
# define VTXT 8      /* maximum text length for the decoders */
#endif
#ifndef VBIN
# define VBIN 7      /* maximum binary length for the encoders */
#endif

struct vin_t {
    size_t len; size_t cap; int variant_ix; int ign_mode; int want_end; int want_len;
    char text[VTXT]; char ign[2]; unsigned char bin[VBIN > VTXT ? VBIN : VTXT];
    unsigned int x; int c;
};
struct vin_t nondet_vin(void);
struct vin_t vin;
VMISUSE_DEFINE

static const int variants[4] = { 1, 3, 5, 7 };   /* ORIGINAL, ORIGINAL_NO_PADDING, URLSAFE, URLSAFE_NO_PADDING */
static const char ALPHA_STD[] = "ABCDEFGHIJKLMNOPQRSTUVWXYZabcdefghijklmnopqrstuvwxyz0123456789+/";
static const char ALPHA_URL[] = "ABCDEFGHIJKLMNOPQRSTUVWXYZabcdefghijklmnopqrstuvwxyz0123456789-_";

static void *dupn(const void *src, size_t n)
{
    unsigned char *p = malloc(n ? n : 1); size_t i;
#ifndef VNATIVE
    __CPROVER_assume(p != NULL);
    if (n == 0) { free(p); p = malloc(0); __CPROVER_assume(p != NULL); }
#endif
    for (i = 0; i < n; i++) p[i] = ((const unsigned char *) src)[i];
    return p;
}

/* ---------------------------------------------------------------- tables (finite complete) */
void hf_b64_tables(void)
{
    VIN_GET();
    VASSUME(vin.x < 64 && vin.c >= 0 && vin.c <= 255);   /* the decoders hand these functions a byte value (the macros are documented for 0..255) */
    int e1 = b64_byte_to_char(vin.x), e2 = b64_byte_to_urlsafe_char(vin.x);
    VASSERT("b64_byte_to_char = RFC 4648 table 1", e1 == ALPHA_STD[vin.x]);
    VASSERT("b64_byte_to_urlsafe_char = RFC 4648 table 2", e2 == ALPHA_URL[vin.x]);
    unsigned d1 = b64_char_to_byte(vin.c), d2 = b64_urlsafe_char_to_byte(vin.c);
    unsigned w1 = 0xFF, w2 = 0xFF; int i;
    for (i = 0; i < 64; i++) { if (vin.c == ALPHA_STD[i]) w1 = i; if (vin.c == ALPHA_URL[i]) w2 = i; }
    VASSERT("b64_char_to_byte inverts table 1 and returns 0xFF exactly for non-alphabet characters", d1 == w1);
    VASSERT("b64_urlsafe_char_to_byte inverts table 2 and returns 0xFF exactly for non-alphabet characters", d2 == w2);
    VREACH("hf_b64_tables");
}

/* ---------------------------------------------------------------- encoded length (finite complete) */
void hf_b64_encoded_len(void)
{
    VIN_GET();
    size_t n = vin.len; int v;
    VASSUME(n < ((size_t) 1 << 62) && vin.variant_ix >= 0 && vin.variant_ix < 4);
    v = variants[vin.variant_ix];
    size_t q = n / 3, r = n - 3 * q;
    size_t want = (v & 2) ? (4 * q + (r == 0 ? 0 : r + 1) + 1) : (4 * (q + (r != 0)) + 1);
    v_misuse_expected = 0;
    size_t got = 0;
    VCALL(got = sodium_base64_encoded_len(n, v));
    if (VMISUSED()) return;
    VASSERT("sodium_base64_encoded_len = 4*ceil(n/3)+1 padded, ceil(4n/3)+1 unpadded", got == want);
    VASSERT("sodium_base64_ENCODED_LEN macro agrees", sodium_base64_ENCODED_LEN(n, v) == want);
    VREACH("hf_b64_encoded_len");
}

void hf_b64_bad_variant(void)
{
    VIN_GET();
    int v = vin.c;
    VASSUME(v != 1 && v != 3 && v != 5 && v != 7);
    v_misuse_expected = 1;
    VREACH("hf_b64_bad_variant");
    VCALL(sodium_base64_encoded_len(vin.len, v));
}

/* ---------------------------------------------------------------- reference decoders */
static int in_ignore(const char *ign, char c) { const char *p; if (ign == NULL || c == 0) return 0; for (p = ign; *p; p++) if (*p == c) return 1; return 0; }
static int hexval(char c) { if (c >= '0' && c <= '9') return c - '0'; if (c >= 'a' && c <= 'f') return c - 'a' + 10; if (c >= 'A' && c <= 'F') return c - 'A' + 10; return -1; }

/* returns status; *olen, *opos; out[] */
static int ref_hex2bin(unsigned char *out, size_t cap, const char *t, size_t len, const char *ign, int have_end, size_t *olen, size_t *opos)
{
    size_t pos = 0, n = 0; int st = 0, ret = 0, acc = 0;
    while (pos < len) {
        int v = hexval(t[pos]);
        if (v < 0) {
            if (st == 0 && in_ignore(ign, t[pos])) { pos++; continue; }   /* ignore characters only between digit pairs */
            break;
        }
        if (n >= cap) { ret = -1; break; }                                  /* would not fit: fail, do not truncate */
        if (st == 0) { acc = v; st = 1; } else { out[n++] = (unsigned char) (acc * 16 + v); st = 0; }
        pos++;
    }
    if (st) { pos--; ret = -1; }                                            /* dangling digit: incomplete pair */
    if (ret) n = 0;
    if (!have_end && pos != len) ret = -1;                                  /* trailing garbage needs an end pointer */
    *olen = n; *opos = pos;
    return ret;
}

static int b64val(char c, int urlsafe) { int i; const char *a = urlsafe ? ALPHA_URL : ALPHA_STD; for (i = 0; i < 64; i++) if (a[i] == c) return i; return -1; }

static int ref_b642bin(unsigned char *out, size_t cap, const char *t, size_t len, const char *ign, int have_end, int variant, size_t *olen, size_t *opos)
{
    size_t pos = 0, n = 0; int ret = 0; unsigned acc = 0, nbits = 0;
    while (pos < len) {
        int v = b64val(t[pos], variant & 4);
        if (v < 0) { if (in_ignore(ign, t[pos])) { pos++; continue; } break; }
        acc = ((acc << 6) | (unsigned) v) & 0xFFFF; nbits += 6;
        if (nbits >= 8) {
            nbits -= 8;
            if (n >= cap) { ret = -1; break; }
            out[n++] = (unsigned char) (acc >> nbits);
        }
        pos++;
    }
    if (nbits > 4 || (acc & ((1u << nbits) - 1)) != 0) ret = -1;            /* incomplete quantum / non-zero trailing bits */
    else if (ret == 0 && !(variant & 2)) {                                  /* padded variants need exactly nbits/2 '=' */
        unsigned need = nbits / 2;
        while (need > 0) {
            if (pos >= len) { ret = -1; break; }
            if (t[pos] == '=') need--; else if (!in_ignore(ign, t[pos])) { ret = -1; break; }
            pos++;
        }
    }
    if (ret) n = 0; else if (ign != NULL) while (pos < len && in_ignore(ign, t[pos])) pos++;
    if (!have_end && pos != len) ret = -1;
    *olen = n; *opos = pos;
    return ret;
}

static const char *mk_ignore(char *store)
{
    /* ign_mode: 0 NULL, 1 "", 2 one character, 3 two characters */
    if (vin.ign_mode == 0) return NULL;
    store[0] = store[1] = store[2] = 0;
    if (vin.ign_mode >= 2) store[0] = vin.ign[0];
    if (vin.ign_mode >= 3) store[1] = vin.ign[1];
    return store;
}

void hb_hex2bin(void)
{
    VIN_GET();
    VASSUME(vin.len <= VTXT && vin.cap <= VTXT / 2 + 1 && vin.ign_mode >= 0 && vin.ign_mode <= 3);
    VASSUME(vin.ign_mode < 2 || vin.ign[0] != 0); VASSUME(vin.ign_mode < 3 || vin.ign[1] != 0);
    char ignbuf[3]; const char *ign = mk_ignore(ignbuf);
    char *text = dupn(vin.text, vin.len);
    unsigned char *bin = dupn(vin.bin, vin.cap);
    unsigned char want[VTXT]; size_t wlen = 99, wpos = 99, glen = 77; const char *gend = NULL; size_t i; int ok = 1;
    int w = ref_hex2bin(want, vin.cap, vin.text, vin.len, ign, vin.want_end != 0, &wlen, &wpos);
    v_misuse_expected = 0; int r = 9;
    VCALL(r = sodium_hex2bin(bin, vin.cap, text, vin.len, ign, vin.want_len ? &glen : NULL, vin.want_end ? &gend : NULL));
    if (VMISUSED()) return;
    VASSERT("sodium_hex2bin succeeds exactly on well-formed input that fits", (r == 0) == (w == 0));
    VASSERT("sodium_hex2bin returns 0 or -1", r == 0 || r == -1);
    if (vin.want_len) {
        VASSERT("sodium_hex2bin: decoded length as documented (0 on failure)", glen == wlen);
        VASSERT("sodium_hex2bin: decoded length never exceeds capacity", glen <= vin.cap);
    }
    if (vin.want_end) {
        VASSERT("sodium_hex2bin: end pointer inside [hex, hex+len]", gend >= text && gend <= text + vin.len);
        if (w == 0) VASSERT("sodium_hex2bin: end pointer after the last parsed character", gend == text + wpos);
    }
    if (w == 0) { for (i = 0; i < wlen; i++) if (bin[i] != want[i]) ok = 0; VASSERT("sodium_hex2bin: decoded bytes", ok); }
    VREACH("hb_hex2bin");
}

void hb_base642bin(void)
{
    VIN_GET();
    VASSUME(vin.len <= VTXT && vin.cap <= (VTXT * 3) / 4 + 1 && vin.ign_mode >= 0 && vin.ign_mode <= 3 && vin.variant_ix >= 0 && vin.variant_ix < 4);
    VASSUME(vin.ign_mode < 2 || vin.ign[0] != 0); VASSUME(vin.ign_mode < 3 || vin.ign[1] != 0);
    char ignbuf[3]; const char *ign = mk_ignore(ignbuf); int variant = variants[vin.variant_ix];
    /* fixed-size arrays keep this harness small; writes beyond the capacity show up as a changed guard byte */
    char text[VTXT]; unsigned char bin[VTXT + 1];
    unsigned char want[VTXT]; size_t wlen = 99, wpos = 99, glen = 77; const char *gend = NULL; size_t i; int ok = 1;
    for (i = 0; i < VTXT; i++) text[i] = vin.text[i];
    for (i = 0; i < VTXT + 1; i++) bin[i] = 0xA5;
    int w = ref_b642bin(want, vin.cap, vin.text, vin.len, ign, vin.want_end != 0, variant, &wlen, &wpos);
    v_misuse_expected = 0; int r = 9;
    VCALL(r = sodium_base642bin(bin, vin.cap, text, vin.len, ign, vin.want_len ? &glen : NULL, vin.want_end ? &gend : NULL, variant));
    if (VMISUSED()) return;
    VASSERT("sodium_base642bin succeeds exactly on well-formed input that fits", (r == 0) == (w == 0));
    VASSERT("sodium_base642bin returns 0 or -1", r == 0 || r == -1);
    if (vin.want_len) {
        VASSERT("sodium_base642bin: decoded length as documented (0 on failure)", glen == wlen);
        VASSERT("sodium_base642bin: decoded length never exceeds capacity", glen <= vin.cap);
    }
    if (vin.want_end) {
        VASSERT("sodium_base642bin: end pointer inside [b64, b64+len]", gend >= text && gend <= text + vin.len);
        if (w == 0) VASSERT("sodium_base642bin: end pointer after the last parsed character", gend == text + wpos);
    }
    if (w == 0) { for (i = 0; i < wlen; i++) if (bin[i] != want[i]) ok = 0; VASSERT("sodium_base642bin: decoded bytes", ok); }
    ok = 1; for (i = vin.cap; i < VTXT + 1; i++) if (bin[i] != 0xA5) ok = 0;
    VASSERT("sodium_base642bin: nothing written beyond bin_maxlen", ok);
    VREACH("hb_base642bin");
}

/* ---------------------------------------------------------------- encoders against RFC 4648 and round trip */
void hb_bin2hex(void)
{
    VIN_GET();
    VASSUME(vin.len <= VBIN && vin.cap <= 2 * VBIN + 3 && vin.cap > 2 * vin.len);
    unsigned char *bin = dupn(vin.bin, vin.len);
    char *hex = malloc(vin.cap); size_t i; int ok = 1; static const char dig[] = "0123456789abcdef";
#ifndef VNATIVE
    __CPROVER_assume(hex != NULL);
#endif
    for (i = 0; i < vin.cap; i++) hex[i] = 0x55;
    v_misuse_expected = 0; char *r = NULL;
    VCALL(r = sodium_bin2hex(hex, vin.cap, bin, vin.len));
    if (VMISUSED()) return;
    for (i = 0; i < vin.len; i++) if (hex[2 * i] != dig[vin.bin[i] >> 4] || hex[2 * i + 1] != dig[vin.bin[i] & 15]) ok = 0;
    VASSERT("sodium_bin2hex: lower-case hex digits, high nibble first", ok);
    VASSERT("sodium_bin2hex: NUL terminated at 2*len, returns hex", hex[2 * vin.len] == 0 && r == hex);
    ok = 1; for (i = 2 * vin.len + 1; i < vin.cap; i++) if (hex[i] != 0x55) ok = 0;
    VASSERT("sodium_bin2hex: nothing written beyond the terminator", ok);
    /* round trip */
    unsigned char back[VBIN]; size_t blen = 99; const char *end = NULL;
    int d = sodium_hex2bin(back, VBIN, hex, 2 * vin.len, NULL, &blen, &end);
    ok = 1; for (i = 0; i < vin.len; i++) if (back[i] != vin.bin[i]) ok = 0;
    VASSERT("hex2bin(bin2hex(x)) == x", d == 0 && blen == vin.len && ok && end == hex + 2 * vin.len);
    VREACH("hb_bin2hex");
}

void hf_bin2hex_guard(void)
{
    VIN_GET();
    VASSUME(vin.len >= SIZE_MAX / 2 || vin.cap <= vin.len * 2U);
    v_misuse_expected = 1;
    char hex[4]; unsigned char bin[4];
    VREACH("hf_bin2hex_guard");
    VCALL(sodium_bin2hex(hex, vin.cap, bin, vin.len));
}

#define VB64CAP (4 * ((VBIN + 2) / 3) + 3)
static size_t ref_b64enc(char *want, const unsigned char *bin, size_t len, int variant)
{
    const char *alpha = (variant & 4) ? ALPHA_URL : ALPHA_STD; size_t wl = 0, i;
    for (i = 0; i + 3 <= len; i += 3) {
        unsigned v = (bin[i] << 16) | (bin[i + 1] << 8) | bin[i + 2];
        want[wl++] = alpha[(v >> 18) & 63]; want[wl++] = alpha[(v >> 12) & 63]; want[wl++] = alpha[(v >> 6) & 63]; want[wl++] = alpha[v & 63];
    }
    if (len - i == 1) { unsigned v = bin[i] << 16; want[wl++] = alpha[(v >> 18) & 63]; want[wl++] = alpha[(v >> 12) & 63]; if (!(variant & 2)) { want[wl++] = '='; want[wl++] = '='; } }
    if (len - i == 2) { unsigned v = (bin[i] << 16) | (bin[i + 1] << 8); want[wl++] = alpha[(v >> 18) & 63]; want[wl++] = alpha[(v >> 12) & 63]; want[wl++] = alpha[(v >> 6) & 63]; if (!(variant & 2)) want[wl++] = '='; }
    return wl;
}

void hb_bin2base64(void)
{
    VIN_GET();
    VASSUME(vin.len <= VBIN && vin.variant_ix >= 0 && vin.variant_ix < 4 && vin.cap <= VB64CAP - 1);
    int variant = variants[vin.variant_ix];
    char want[VB64CAP], b64[VB64CAP]; size_t wl, i; int ok = 1; unsigned char bin[VBIN];
    for (i = 0; i < VBIN; i++) bin[i] = vin.bin[i];
    wl = ref_b64enc(want, vin.bin, vin.len, variant);
    v_misuse_expected = vin.cap <= wl;
    for (i = 0; i < VB64CAP; i++) b64[i] = 0x55;
    char *r = NULL;
    VREACH("hb_bin2base64");
    VCALL(r = sodium_bin2base64(b64, vin.cap, bin, vin.len, variant));
    if (VMISUSED()) return;
    for (i = 0; i < wl; i++) if (b64[i] != want[i]) ok = 0;
    VASSERT("sodium_bin2base64: RFC 4648 text in the chosen alphabet, '=' padding only in padded variants", ok);
    ok = 1; for (i = wl; i < vin.cap; i++) if (b64[i] != 0) ok = 0;
    VASSERT("sodium_bin2base64: NUL terminated and NUL filled up to b64_maxlen, returns b64", ok && r == b64);
    ok = 1; for (i = vin.cap; i < VB64CAP; i++) if (b64[i] != 0x55) ok = 0;
    VASSERT("sodium_bin2base64: nothing written beyond b64_maxlen", ok);
    VASSERT("sodium_base64_encoded_len is the documented length", sodium_base64_encoded_len(vin.len, variant) == wl + 1);
}

void hb_b64_roundtrip(void)
{
    VIN_GET();
    VASSUME(vin.len <= VBIN && vin.variant_ix >= 0 && vin.variant_ix < 4);
    int variant = variants[vin.variant_ix];
    char b64[VB64CAP]; size_t i, el; int ok = 1; unsigned char bin[VBIN], back[VBIN];
    for (i = 0; i < VBIN; i++) bin[i] = vin.bin[i];
    v_misuse_expected = 0;
    size_t blen = 99; const char *end = NULL; int d = 9;
    VCALL(sodium_bin2base64(b64, VB64CAP, bin, vin.len, variant); el = strlen(b64);
          d = sodium_base642bin(back, vin.len, b64, el, NULL, &blen, &end, variant));
    if (VMISUSED()) return;
    for (i = 0; i < vin.len; i++) if (back[i] != vin.bin[i]) ok = 0;
    VASSERT("base642bin(bin2base64(x)) == x with capacity exactly |x|", d == 0 && blen == vin.len && ok);
    VASSERT("end pointer at the terminator, text length = encoded_len - 1", end == b64 + el && el + 1 == sodium_base64_encoded_len(vin.len, variant));
    VREACH("hb_b64_roundtrip");
}

VNATIVE_MAIN(VENTRY)
