/* crypto_scalarmult_curve25519 dispatcher, crypto_kx and crypto_box beforenm / key pairs (C05, C18, C12) with the
 * scalar multiplication, BLAKE2b, HSalsa20 and SHA-512 as assumed callees. */
#include "vharness.h"
#include <stdlib.h>
#include <string.h>
#define V_STUB_MEMZERO 1
#define V_MEMZERO_SILENT 1
#define V_STUB_HSALSA20 1
#include "transcript.h"
struct vin_t { unsigned char q[32], keys[64], sk[32], pk[32], pk2[32], seed[32], h[64], hk[32]; int mult_ret, smret, null_mode; };
struct vin_t nondet_vin(void);
struct vin_t vin;
VMISUSE_DEFINE
#if PART == 0
/* ---- dispatcher: -1 exactly when the back end fails or the shared point is all zero ---- */
#include "crypto_scalarmult/curve25519/scalarmult_curve25519.h"
static unsigned char seen_n[32], seen_p[32]; static int n_mult, n_base;
static int b_mult(unsigned char *q, const unsigned char *n, const unsigned char *p) { n_mult++; memcpy(seen_n, n, 32); memcpy(seen_p, p, 32); memcpy(q, vin.q, 32); return vin.mult_ret ? -1 : 0; }
static int b_mult_base(unsigned char *q, const unsigned char *n) { n_base++; memcpy(seen_n, n, 32); memcpy(q, vin.q, 32); return 0; }
struct crypto_scalarmult_curve25519_implementation crypto_scalarmult_curve25519_ref10_implementation = { b_mult, b_mult_base };
int sodium_runtime_has_avx(void) { return 0; }
#include "crypto_scalarmult/curve25519/scalarmult_curve25519.c"
void hf_dispatch(void)
{
    VIN_GET(); n_mult = n_base = 0;
    /* null_mode selects the aliasing: 0 = three distinct buffers, 1 = output over the point, 2 = output over the scalar */
    unsigned char qb[32], nb[32], pb[32], *q; int r;
    memcpy(nb, vin.sk, 32); memcpy(pb, vin.pk, 32);
    q = vin.null_mode == 1 ? pb : (vin.null_mode == 2 ? nb : qb);
    r = crypto_scalarmult_curve25519(q, nb, pb);
    VASSERT("the selected back end is run once on the caller's scalar and point as given (also when the output aliases one of them)", n_mult == 1 && n_base == 0 && v_eq(seen_n, vin.sk, 32) && v_eq(seen_p, vin.pk, 32));
    VASSERT("failure (-1) is reported exactly when the back end refuses the point or the shared point is all zero; otherwise 0", r == ((vin.mult_ret || v_is_zero(vin.q, 32)) ? -1 : 0));
    VASSERT("the shared point is returned unchanged", vin.mult_ret || v_eq(q, vin.q, 32));
    VREACH("hf_dispatch");
}
void hf_dispatch_base(void)
{
    VIN_GET(); n_mult = n_base = 0;
    unsigned char qb[32], nb[32], *q; int r;
    memcpy(nb, vin.sk, 32);
    q = vin.null_mode == 2 ? nb : qb;
    r = crypto_scalarmult_curve25519_base(q, nb);
    VASSERT("base-point multiplication: the back end is run once on the caller's scalar, its result is returned, the call succeeds", r == 0 && n_base == 1 && n_mult == 0 && v_eq(seen_n, vin.sk, 32) && v_eq(q, vin.q, 32));
    VREACH("hf_dispatch_base");
}
#elif PART == 1
/* ---- crypto_kx ---- */
#include "crypto_generichash.h"
static unsigned nsm, nh; static const void *sm_n, *sm_p, *hu_ptr[4]; static size_t hu_len[4], h_outlen, h_keylen; static const void *h_key; static unsigned char hq[32];
int crypto_scalarmult(unsigned char *q, const unsigned char *n, const unsigned char *p) { nsm++; sm_n = n; sm_p = p; memcpy(q, vin.q, 32); return vin.smret ? -1 : 0; }
int crypto_scalarmult_base(unsigned char *q, const unsigned char *n) { nsm++; sm_n = n; sm_p = NULL; memcpy(q, vin.q, 32); return 0; }
int crypto_generichash_init(crypto_generichash_state *state, const unsigned char *key, const size_t keylen, const size_t outlen) { (void) state; h_key = key; h_keylen = keylen; h_outlen = outlen; nh = 0; return 0; }
int crypto_generichash_update(crypto_generichash_state *state, const unsigned char *in, unsigned long long inlen) { (void) state; if (nh < 4) { hu_ptr[nh] = in; hu_len[nh] = inlen; if (nh == 0 && inlen == 32) memcpy(hq, in, 32); } nh++; return 0; }
int crypto_generichash_final(crypto_generichash_state *state, unsigned char *out, const size_t outlen) { (void) state; memcpy(out, vin.keys, outlen <= 64 ? outlen : 64); return 0; }
static const void *gh_in; static size_t gh_inlen, gh_outlen; static int ngh;
int crypto_generichash(unsigned char *out, size_t outlen, const unsigned char *in, unsigned long long inlen, const unsigned char *key, size_t keylen) { (void) key; (void) keylen; ngh++; gh_in = in; gh_inlen = inlen; gh_outlen = outlen; memcpy(out, vin.h, outlen <= 64 ? outlen : 64); return 0; }
static int nrand; static const void *rand_ptr; static size_t rand_len;
void randombytes_buf(void *const buf, const size_t size) { nrand++; rand_ptr = buf; rand_len = size; v_out(buf, size); }
#include "crypto_kx/crypto_kx.c"
void hf_kx_session(void)
{
    VIN_GET(); nsm = 0; v_misuse_expected = 0;
    unsigned char rx[32], tx[32], srx[32], stx[32]; int r, s;
    memset(rx, 0xA5, 32); memset(tx, 0xA5, 32);
    r = crypto_kx_client_session_keys(rx, tx, vin.pk, vin.sk, vin.pk2);
    if (vin.smret) { VASSERT("client: a failing X25519 makes the call fail and nothing is derived", r == -1 && rx[0] == 0xA5 && tx[0] == 0xA5); }
    else {
        VASSERT("client: q = X25519(client_sk, server_pk)", r == 0 && nsm == 1 && sm_n == vin.sk && sm_p == vin.pk2);
        VASSERT("client: keys = BLAKE2b-512(q || client_pk || server_pk), unkeyed", h_key == NULL && h_keylen == 0 && h_outlen == 64 && nh == 3 && hu_len[0] == 32 && v_eq(hq, vin.q, 32) && hu_ptr[1] == vin.pk && hu_len[1] == 32 && hu_ptr[2] == vin.pk2 && hu_len[2] == 32);
        VASSERT("client: rx = first half, tx = second half", v_eq(rx, vin.keys, 32) && v_eq(tx, vin.keys + 32, 32));
    }
    nsm = 0;
    s = crypto_kx_server_session_keys(srx, stx, vin.pk2, vin.sk, vin.pk);      /* server_pk = pk2, client_pk = pk */
    if (!vin.smret) {
        VASSERT("server: q = X25519(server_sk, client_pk); same hash input order q || client_pk || server_pk", s == 0 && nsm == 1 && sm_p == vin.pk && nh == 3 && hu_ptr[1] == vin.pk && hu_ptr[2] == vin.pk2 && h_outlen == 64);
        VASSERT("server: tx = first half, rx = second half, so client rx = server tx and client tx = server rx whenever both sides compute the same q", v_eq(stx, vin.keys, 32) && v_eq(srx, vin.keys + 32, 32));
    }
    VREACH("hf_kx_session");
}
void hf_kx_keypair(void)
{
    VIN_GET(); nsm = 0; ngh = 0; nrand = 0;
    unsigned char pk[32], sk[32];
    crypto_kx_seed_keypair(pk, sk, vin.seed);
    VASSERT("seed key pair: sk = BLAKE2b-256(seed), pk = X25519 base point multiple of sk", ngh == 1 && gh_in == vin.seed && gh_inlen == 32 && gh_outlen == 32 && v_eq(sk, vin.h, 32) && nsm == 1 && sm_n == sk && v_eq(pk, vin.q, 32) && nrand == 0);
    nsm = 0;
    crypto_kx_keypair(pk, sk);
    VASSERT("random key pair: 32 secret bytes from the random source, pk derived from them", nrand == 1 && rand_ptr == sk && rand_len == 32 && nsm == 1 && sm_n == sk);
    VREACH("hf_kx_keypair");
}
#else
/* ---- crypto_box beforenm / key pairs (XSalsa20 variant) ---- */
static unsigned nsm; static const void *sm_n, *sm_p; static int nrand, nsha; static const void *rand_ptr, *sha_in; static size_t rand_len; static unsigned long long sha_len;
int crypto_scalarmult_curve25519(unsigned char *q, const unsigned char *n, const unsigned char *p) { nsm++; sm_n = n; sm_p = p; memcpy(q, vin.q, 32); return vin.smret ? -1 : 0; }
int crypto_scalarmult_curve25519_base(unsigned char *q, const unsigned char *n) { nsm++; sm_n = n; sm_p = NULL; memcpy(q, vin.q, 32); return 0; }
int crypto_hash_sha512(unsigned char *out, const unsigned char *in, unsigned long long inlen) { nsha++; sha_in = in; sha_len = inlen; memcpy(out, vin.h, 64); return 0; }
void randombytes_buf(void *const buf, const size_t size) { nrand++; rand_ptr = buf; rand_len = size; v_out(buf, size); }
int crypto_secretbox_xsalsa20poly1305(unsigned char *c, const unsigned char *m, unsigned long long mlen, const unsigned char *n, const unsigned char *k) { (void) c; (void) m; (void) mlen; (void) n; (void) k; return 0; }
int crypto_secretbox_xsalsa20poly1305_open(unsigned char *m, const unsigned char *c, unsigned long long clen, const unsigned char *n, const unsigned char *k) { (void) c; (void) m; (void) clen; (void) n; (void) k; return 0; }
#include "crypto_box/curve25519xsalsa20poly1305/box_curve25519xsalsa20poly1305.c"
void hf_box_beforenm(void)
{
    VIN_GET(); nsm = 0; v_nlog = 0; v_subkey = vin.hk; v_ref_key = vin.q; static const unsigned char z16[16] = { 0 }; v_ref_na = z16;
    unsigned char k[32]; int r;
    memset(k, 0xA5, 32);
    r = crypto_box_curve25519xsalsa20poly1305_beforenm(k, vin.pk, vin.sk);
    if (vin.smret) { VASSERT("beforenm fails when X25519 fails (low-order peer key), no key is produced", r == -1 && k[0] == 0xA5 && v_nlog == 0); }
    else VASSERT("beforenm: k = HSalsa20(key = X25519(sk, pk), input = 16 zero bytes, default constant)", r == 0 && nsm == 1 && sm_n == vin.sk && sm_p == vin.pk && v_nlog == 1 && V_EV(0).op == V_OP_HSALSA && (V_EV(0).flags & V_F_K_USER) && (V_EV(0).flags & V_F_N_A) && V_EV(0).st == NULL && v_eq(k, vin.hk, 32));
    VREACH("hf_box_beforenm");
}
void hf_box_keypair(void)
{
    VIN_GET(); nsm = 0; nrand = 0; nsha = 0;
    unsigned char pk[32], sk[32];
    crypto_box_curve25519xsalsa20poly1305_seed_keypair(pk, sk, vin.seed);
    VASSERT("seed key pair: sk = first 32 bytes of SHA-512(seed), pk = base point multiple", nsha == 1 && sha_in == vin.seed && sha_len == 32 && v_eq(sk, vin.h, 32) && nsm == 1 && sm_n == sk && v_eq(pk, vin.q, 32) && nrand == 0);
    nsm = 0;
    crypto_box_curve25519xsalsa20poly1305_keypair(pk, sk);
    VASSERT("random key pair: 32 secret bytes from the random source, pk derived from them", nrand == 1 && rand_ptr == sk && rand_len == 32 && nsm == 1 && sm_n == sk);
    VREACH("hf_box_keypair");
}
#endif
VNATIVE_MAIN(VENTRY)
