/* NaCl zero-padded secretbox forms (crypto_secretbox_xsalsa20poly1305{,_open}), C01 / C02 / C12, over XSalsa20 and
 * Poly1305 as assumed callees: mlen < 32 refused; stream XOR of the padded buffer; one-time key = first 32 stream bytes;
 * MAC over c[32..); first 16 bytes zeroed; open verifies before decrypting and zeroes the 32 padding bytes. */
#include "vharness.h"
#include <stdlib.h>
#include <string.h>
#define V_STUB_XSALSA20 1
#define V_STUB_POLY1305 1
#define V_STUB_RANDOMBYTES 1
#include "transcript.h"
#include "crypto_secretbox/xsalsa20poly1305/secretbox_xsalsa20poly1305.c"
struct vin_t { unsigned long long mlen; unsigned char n[24], k[32], ks0[64], tag[16], mold; size_t gk; int vret; };
struct vin_t nondet_vin(void);
struct vin_t vin;
static void setup_(void) { v_nlog = 0; v_ref_key = vin.k; v_ref_na = vin.n; v_ks0 = vin.ks0; v_tag = vin.tag; v_poly_verify_ret = vin.vret; }
static void *buf_(unsigned long long n) { void *p = malloc(n ? n : 1);
#ifndef VNATIVE
    __CPROVER_assume(p != NULL);
#endif
    return p; }
void hf_nacl_seal(void)
{
    VIN_GET(); setup_();
    VASSUME(vin.mlen <= 65535);
    unsigned char *m = buf_(vin.mlen), *c = buf_(vin.mlen); int r, i, z = 1;
    r = crypto_secretbox_xsalsa20poly1305(c, m, vin.mlen, vin.n, vin.k);
    if (vin.mlen < 32) VASSERT("a padded message shorter than 32 bytes is refused without any work", r == -1 && v_nlog == 0);
    else {
        VASSERT("c = XSalsa20 XOR of the whole zero-padded message under (n, k)", r == 0 && V_EV(0).op == V_OP_XOR && V_EV(0).cipher == V_C_XSALSA20 && V_EV(0).out == c && V_EV(0).in == m && V_EV(0).len == vin.mlen && V_EV(0).ic == 0 && (V_EV(0).flags & V_F_N_A) && (V_EV(0).flags & V_F_K_USER));
        VASSERT("tag over c[32..) keyed with the first 32 ciphertext (= key-stream) bytes, written to c[16..32)", V_EV(1).op == V_OP_POLY_ONESHOT && V_EV(1).out == c + 16 && V_EV(1).in == c + 32 && V_EV(1).len == vin.mlen - 32 && V_EV(1).kptr == c && v_nlog == 2);
        for (i = 0; i < 16; i++) if (c[i] != 0) z = 0;
        VASSERT("the first 16 bytes are zeroed, the tag follows", z && v_eq(c + 16, vin.tag, 16));
    }
    VREACH("hf_nacl_seal");
}
void hf_nacl_open(void)
{
    VIN_GET(); setup_();
    VASSUME(vin.mlen <= 65535);
    unsigned char *c = buf_(vin.mlen), *m = buf_(vin.mlen); int r, i, z = 1, have = vin.gk < vin.mlen;
    if (have) m[vin.gk] = vin.mold;
    r = crypto_secretbox_xsalsa20poly1305_open(m, c, vin.mlen, vin.n, vin.k);
    if (vin.mlen < 32) VASSERT("a box shorter than 32 bytes is rejected without any work", r == -1 && v_nlog == 0);
    else {
        VASSERT("one-time key = first 32 bytes of the XSalsa20 stream under (n, k)", V_EV(0).op == V_OP_STREAM && V_EV(0).cipher == V_C_XSALSA20 && V_EV(0).len == 32 && (V_EV(0).flags & V_F_N_A) && (V_EV(0).flags & V_F_K_USER));
        VASSERT("the tag c[16..32) is verified over c[32..) with that key before anything is decrypted", V_EV(1).op == V_OP_POLY_VERIFY && V_EV(1).st == c + 16 && V_EV(1).in == c + 32 && V_EV(1).len == vin.mlen - 32 && V_EV(1).kptr == V_EV(0).out && (V_EV(1).flags & V_F_K_KS0));
        VASSERT("accepted iff the verification succeeded", (r == 0) == (vin.vret == 0) && (r == 0 || r == -1));
        if (vin.vret != 0) { VASSERT("on failure no key stream is applied", v_nlog == 2); if (have) VASSERT("and the output is untouched", m[vin.gk] == vin.mold); }
        else { VASSERT("m = XSalsa20 XOR of the whole box, then the 32 padding bytes are zeroed", v_nlog == 3 && V_EV(2).op == V_OP_XOR && V_EV(2).out == m && V_EV(2).in == c && V_EV(2).len == vin.mlen && (V_EV(2).flags & V_F_N_A) && (V_EV(2).flags & V_F_K_USER));
               for (i = 0; i < 32; i++) if (m[i] != 0) z = 0; VASSERT("padding zero", z); }
    }
    VREACH("hf_nacl_open");
}
VNATIVE_MAIN(VENTRY)
