/* C11 (branch half): self-composition on branch traces.  goto-instrument --branch v_hook inserts a call to v_hook after
 * every conditional goto of every function; while recording is on, the hook appends the outcome to a ghost trace.  Each
 * harness runs the real function twice on EQUAL public inputs (lengths, block sizes, variants, pointers) and INDEPENDENT
 * secrets and requires the two traces to be identical: the sequence of branch outcomes does not depend on the secrets.
 * Memory-address independence is NOT decided here (no address hook exists in CBMC). */
#include "vharness.h"
#include <stdlib.h>
#include <string.h>

#ifndef TMAX
# define TMAX 256
#endif
static unsigned char v_tr[2][TMAX]; static unsigned v_tn[2]; static int v_cur, v_rec;
void v_hook(const char *id) { if (v_rec) { if (v_tn[v_cur] < TMAX) v_tr[v_cur][v_tn[v_cur]] = (unsigned char) (id[0] == 't'); v_tn[v_cur]++; } }
#define CT_RUN(k, stmt) do { v_cur = (k); v_tn[k] = 0; v_rec = 1; stmt; v_rec = 0; } while (0)
static int v_same_trace(void) { unsigned i; int ok = v_tn[0] == v_tn[1] && v_tn[0] <= TMAX; for (i = 0; i < TMAX; i++) if (i < v_tn[0] && v_tr[0][i] != v_tr[1][i]) ok = 0; return ok; }
#define CT_ASSERT(what) VASSERT("branch trace independent of the secret operands: " what, v_same_trace())

#ifndef VL
# define VL 16
#endif
struct vin_t { size_t len, blocksize; int variant; unsigned char a[2][64], b[2][64]; uint64_t w[2][16]; };
struct vin_t nondet_vin(void);
struct vin_t vin;
VMISUSE_DEFINE
#ifndef VNATIVE
void explicit_bzero(void *s, size_t n) { memset(s, 0, n); }
#endif

#if PART == 0        /* ---------------- utils.c helpers + crypto_verify ---------------- */
#if !defined(VNATIVE) && defined(HAVE_EMMINTRIN_H)
typedef char v16qi_model __attribute__((vector_size(16)));
int __builtin_ia32_pmovmskb128(v16qi_model v) { int r = 0, i; for (i = 0; i < 16; i++) r |= ((v[i] >> 7) & 1) << i; return r; }   /* assumed instruction model */
#endif
#include "sodium/utils.c"
#include "crypto_verify/verify.c"
void hb_ct_utils(void)
{
    VIN_GET();
    VASSUME(vin.len <= VL);
    unsigned char x[2][VL], y[2][VL]; int k; size_t i;
    for (k = 0; k < 2; k++) for (i = 0; i < VL; i++) { x[k][i] = vin.a[k][i]; y[k][i] = vin.b[k][i]; }
    for (k = 0; k < 2; k++) CT_RUN(k, sodium_memcmp(x[k], y[k], vin.len));
    CT_ASSERT("sodium_memcmp (secret: both buffers; public: length)");
    for (k = 0; k < 2; k++) CT_RUN(k, sodium_compare(x[k], y[k], vin.len));
    CT_ASSERT("sodium_compare");
    for (k = 0; k < 2; k++) CT_RUN(k, sodium_is_zero(x[k], vin.len));
    CT_ASSERT("sodium_is_zero");
    for (k = 0; k < 2; k++) CT_RUN(k, sodium_add(x[k], y[k], vin.len));
    CT_ASSERT("sodium_add");
    for (k = 0; k < 2; k++) CT_RUN(k, sodium_sub(x[k], y[k], vin.len));
    CT_ASSERT("sodium_sub");
    for (k = 0; k < 2; k++) CT_RUN(k, sodium_increment(x[k], vin.len));
    CT_ASSERT("sodium_increment");
    VREACH("hb_ct_utils");
}
void hf_ct_verify(void)
{
    VIN_GET();
    int k;
    for (k = 0; k < 2; k++) CT_RUN(k, crypto_verify_16(vin.a[k], vin.b[k]));
    CT_ASSERT("crypto_verify_16");
    for (k = 0; k < 2; k++) CT_RUN(k, crypto_verify_32(vin.a[k], vin.b[k]));
    CT_ASSERT("crypto_verify_32");
    for (k = 0; k < 2; k++) CT_RUN(k, crypto_verify_64(vin.a[k], vin.b[k]));
    CT_ASSERT("crypto_verify_64");
    VREACH("hf_ct_verify");
}
void hb_ct_pad(void)
{
    VIN_GET();
    VASSUME(vin.blocksize >= 1 && vin.blocksize <= 16 && vin.len <= 32 && vin.len >= vin.blocksize && (vin.len % vin.blocksize) == 0);
    unsigned char x[2][48]; size_t o[2], p[2], ul = vin.variant & 15; int k; size_t i;
    for (k = 0; k < 2; k++) for (i = 0; i < 48; i++) x[k][i] = vin.a[k][i];
    /* unpad: secret = buffer content (hence the unpadded length); public = padded length and block size */
    for (k = 0; k < 2; k++) CT_RUN(k, sodium_unpad(&o[k], x[k], vin.len, vin.blocksize));
    CT_ASSERT("sodium_unpad (secret: content and padding position)");
    /* pad: secret = content; public = unpadded length, block size, capacity */
    for (k = 0; k < 2; k++) CT_RUN(k, sodium_pad(&p[k], x[k], ul, vin.blocksize, 48));
    CT_ASSERT("sodium_pad");
    VREACH("hb_ct_pad");
}
#elif PART == 1      /* ---------------- codecs ---------------- */
#include "sodium/codecs.c"
void hb_ct_codecs(void)
{
    VIN_GET();
    VASSUME(vin.len <= 6 && (vin.variant == 1 || vin.variant == 3 || vin.variant == 5 || vin.variant == 7));
    char hex[2][2 * 12 + 1], b64[2][24]; int k;
    for (k = 0; k < 2; k++) CT_RUN(k, sodium_bin2hex(hex[k], sizeof hex[k], vin.a[k], vin.len));
    CT_ASSERT("sodium_bin2hex (secret: bytes; public: length)");
    for (k = 0; k < 2; k++) CT_RUN(k, sodium_bin2base64(b64[k], sizeof b64[k], vin.a[k], vin.len, vin.variant));
    CT_ASSERT("sodium_bin2base64 (secret: bytes; public: length, variant)");
    VREACH("hb_ct_codecs");
}
#elif PART == 2      /* ---------------- field / scalar helpers of ed25519_ref10.c and x25519 blocklist ---------------- */
#define V_STUB_MEMZERO 1
#define V_MEMZERO_SILENT 1
#include "transcript.h"
int sodium_is_zero(const unsigned char *n, const size_t nlen) { size_t i; volatile unsigned char d = 0; for (i = 0; i < nlen; i++) d |= n[i]; return 1 & ((d - 1) >> 8); }
#include "crypto_core/ed25519/ref10/ed25519_ref10.c"
#include "crypto_scalarmult/curve25519/ref10/x25519_ref10.c"
void hf_ct_field(void)
{
    VIN_GET();
    fe25519 f[2], g[2]; int k, i; unsigned char s[2][32]; unsigned int bsel[2];
    for (k = 0; k < 2; k++) { for (i = 0; i < 5; i++) { f[k][i] = vin.w[k][i] & 0x3fffffffffffffULL; g[k][i] = vin.w[k][5 + i] & 0x3fffffffffffffULL; } bsel[k] = (unsigned) (vin.w[k][10] & 1); }
    for (k = 0; k < 2; k++) CT_RUN(k, fe25519_cswap(f[k], g[k], bsel[k]));
    CT_ASSERT("fe25519_cswap (secret: both elements and the swap bit)");
    for (k = 0; k < 2; k++) CT_RUN(k, fe25519_cmov(f[k], g[k], bsel[k]));
    CT_ASSERT("fe25519_cmov");
    for (k = 0; k < 2; k++) CT_RUN(k, fe25519_cneg(f[k], bsel[k]));
    CT_ASSERT("fe25519_cneg");
    for (k = 0; k < 2; k++) CT_RUN(k, fe25519_abs(f[k]));
    CT_ASSERT("fe25519_abs");
    for (k = 0; k < 2; k++) CT_RUN(k, (void) fe25519_isnegative(f[k]));
    CT_ASSERT("fe25519_isnegative");
    for (k = 0; k < 2; k++) CT_RUN(k, (void) fe25519_iszero(f[k]));
    CT_ASSERT("fe25519_iszero");
    for (k = 0; k < 2; k++) CT_RUN(k, fe25519_tobytes(s[k], f[k]));
    CT_ASSERT("fe25519_tobytes");
    for (k = 0; k < 2; k++) CT_RUN(k, (void) sc25519_is_canonical(vin.a[k]));
    CT_ASSERT("sc25519_is_canonical");
    for (k = 0; k < 2; k++) CT_RUN(k, (void) has_small_order(vin.b[k]));
    CT_ASSERT("x25519 has_small_order");
    VREACH("hf_ct_field");
}
#elif PART == 3      /* ---------------- ChaCha20 ref block, Poly1305 donna, SipHash ---------------- */
#define V_STUB_MEMZERO 1
#define V_MEMZERO_SILENT 1
#include "transcript.h"
#include "crypto_verify/verify.c"
#include "crypto_stream/chacha20/ref/chacha20_ref.c"
#include "crypto_onetimeauth/poly1305/donna/poly1305_donna.c"
#include "crypto_shorthash/siphash24/ref/shorthash_siphash24_ref.c"
#ifndef NB
# define NB 64
#endif
void hf_ct_prims(void)
{
    VIN_GET();
    chacha_ctx ctx[2]; unsigned char out[2][NB], mac[2][16], sh[2][8]; int k, i;
    for (k = 0; k < 2; k++) for (i = 0; i < 16; i++) ctx[k].input[i] = (uint32_t) vin.w[k][i];
    ctx[1].input[12] = ctx[0].input[12]; ctx[1].input[13] = ctx[0].input[13];      /* the block counter is public */
    for (k = 0; k < 2; k++) CT_RUN(k, chacha20_encrypt_bytes(&ctx[k], vin.a[k], out[k], NB));
    CT_ASSERT("ChaCha20 reference core (secret: key, nonce, message; public: length and block counter)");
    for (k = 0; k < 2; k++) CT_RUN(k, crypto_onetimeauth_poly1305_donna(mac[k], vin.a[k], NB < 40 ? NB : 40, vin.b[k]));
    CT_ASSERT("Poly1305 donna one-shot (secret: key and message; public: length)");
    for (k = 0; k < 2; k++) CT_RUN(k, crypto_shorthash_siphash24(sh[k], vin.a[k], NB < 20 ? NB : 20, vin.b[k]));
    CT_ASSERT("SipHash-2-4 (secret: key and message; public: length)");
    VREACH("hf_ct_prims");
}
#endif
VNATIVE_MAIN(VENTRY)
