/* C20: memory exhaustion makes Argon2 password hashing fail closed.
 * Real code: argon2-core.c (allocate_memory, free_memory, argon2_initialize, argon2_finalize, ...) and argon2.c
 * (argon2_ctx, argon2_hash, argon2_verify).  Every allocator (malloc, mmap) fails nondeterministically and independently,
 * which covers "request i fails" and "all from i on fail" for every i.  Compute kernels are assumed frame-only stubs:
 * BLAKE2b (crypto_generichash_blake2b_*), blake2b_long, the fill_segment back ends, the string codec. */
#include "vharness.h"
#include <stdlib.h>
#include <string.h>
#include <errno.h>
#include <sys/mman.h>

struct vin_t { unsigned t_cost, m_cost; size_t pwdlen, hashlen, enclen; int want_hash, want_enc, fail[8], enc_ret, dec_ret, cmp_ret, type; unsigned dec_m, dec_t; size_t dec_saltlen, dec_outlen; };
struct vin_t nondet_vin(void);
struct vin_t vin;
VMISUSE_DEFINE

/* ---- failing allocators ---- */
int g_alloc_failed; unsigned g_alloc_ix; int g_live; void *g_map; size_t g_map_len; int g_map_live; int g_bad_unmap;
static int next_fails_(void) { int f = g_alloc_ix < 8 ? vin.fail[g_alloc_ix] != 0 : 0; g_alloc_ix++; return f; }
void *v_malloc(size_t n)
{
    void *p;
    if (next_fails_()) { g_alloc_failed = 1; errno = ENOMEM; return NULL; }
    p = malloc(n);
    __CPROVER_assume(p != NULL);
    g_live++;
    return p;
}
void v_free(void *p) { if (p != NULL) g_live--; free(p); }
void *mmap(void *addr, size_t len, int prot, int flags, int fd, off_t off)
{
    void *p;
    (void) addr; (void) prot; (void) flags; (void) fd; (void) off;
    if (next_fails_()) { g_alloc_failed = 1; errno = ENOMEM; return MAP_FAILED; }
    __CPROVER_assume(len == 8 * 1024);          /* 8 blocks: the minimum Argon2 memory; keeps the object size constant */
    p = malloc(8 * 1024);
    __CPROVER_assume(p != NULL);
    g_map = p; g_map_len = len; g_map_live = 1; g_live++;
    return p;
}
int munmap(void *addr, size_t len)
{
    if (!g_map_live || addr != g_map || len != g_map_len) { g_bad_unmap = 1; __CPROVER_assert(0, "munmap called on something that is not the live mapping (dangling pointer / double unmap)"); return -1; }
    g_map_live = 0; g_live--; free(addr);
    return 0;
}
#define malloc v_malloc
#define free v_free

/* ---- assumed compute kernels (frame only) ---- */
#include "crypto_generichash_blake2b.h"
#include "crypto_pwhash/argon2/blake2b-long.h"   /* (namespacing macros rename blake2b_long) */
#include "utils.h"
#include "randombytes.h"
#include "runtime.h"
int crypto_generichash_blake2b_init(crypto_generichash_blake2b_state *state, const unsigned char *key, const size_t keylen, const size_t outlen) { (void) key; (void) keylen; (void) outlen; __CPROVER_havoc_object(state); return 0; }
int crypto_generichash_blake2b_update(crypto_generichash_blake2b_state *state, const unsigned char *in, unsigned long long inlen) { (void) state; __CPROVER_assert(inlen == 0 || __CPROVER_r_ok(in, inlen), "hash input readable"); return 0; }
int crypto_generichash_blake2b_final(crypto_generichash_blake2b_state *state, unsigned char *out, const size_t outlen) { (void) state; __CPROVER_assert(__CPROVER_w_ok(out, outlen), "hash output writable"); if (outlen) __CPROVER_havoc_slice(out, outlen); return 0; }
int blake2b_long(void *pout, size_t outlen, const void *in, size_t inlen) { __CPROVER_assert(__CPROVER_w_ok(pout, outlen) && (inlen == 0 || __CPROVER_r_ok(in, inlen)), "blake2b_long buffers valid"); if (outlen) __CPROVER_havoc_slice(pout, outlen); return 0; }
void sodium_memzero(void *const pnt, const size_t len) { __CPROVER_assert(len == 0 || __CPROVER_w_ok(pnt, len), "wiped buffer is live and writable"); }
int sodium_memcmp(const void *const b1_, const void *const b2_, size_t len) { __CPROVER_assert(len == 0 || (__CPROVER_r_ok(b1_, len) && __CPROVER_r_ok(b2_, len)), "compared buffers readable"); return vin.cmp_ret ? -1 : 0; }
void randombytes_buf(void *const buf, const size_t size) { if (size) __CPROVER_havoc_slice(buf, size); }
int sodium_runtime_has_ssse3(void) { return 0; }
int sodium_runtime_has_avx2(void) { return 0; }
int sodium_runtime_has_avx512f(void) { return 0; }

#include "crypto_pwhash/argon2/argon2-core.c"
void argon2_fill_segment_ref(const argon2_instance_t *instance, argon2_position_t position)
{
    (void) position;
    __CPROVER_assert(instance->region != NULL && instance->region->memory != NULL && __CPROVER_w_ok(instance->region->memory, (size_t) instance->memory_blocks * ARGON2_BLOCK_SIZE) && instance->pseudo_rands != NULL,
                     "block memory is allocated when the fill kernel runs");
}
#include "crypto_pwhash/argon2/argon2.c"

int argon2_encode_string(char *dst, size_t dst_len, argon2_context *ctx, argon2_type type)
{
    (void) ctx; (void) type;
    __CPROVER_assert(__CPROVER_w_ok(dst, dst_len), "encoded output writable");
    if (dst_len) __CPROVER_havoc_slice(dst, dst_len);
    return vin.enc_ret ? ARGON2_ENCODING_FAIL : ARGON2_OK;
}
int argon2_decode_string(argon2_context *ctx, const char *str, argon2_type type)
{
    (void) str; (void) type;
    if (vin.dec_ret) return ARGON2_DECODING_FAIL;
    __CPROVER_assume(vin.dec_saltlen == 8 && vin.dec_outlen == 12 && ctx->outlen >= 12 && ctx->saltlen >= 8);   /* constant sizes: symbolic-length memcpy blows up */
    ctx->saltlen = (uint32_t) vin.dec_saltlen; ctx->outlen = (uint32_t) vin.dec_outlen;
    ctx->m_cost = vin.dec_m; ctx->t_cost = vin.dec_t; ctx->lanes = 1; ctx->threads = 1;
    return ARGON2_OK;
}

/* assumed contract of argon2_hash inside argon2_verify (proved on the real body by c20.f.argon2_hash): an internal
 * allocation failure is always reported as an error; otherwise the result and the output bytes are arbitrary */
int v_argon2_hash_stub(const uint32_t t_cost, const uint32_t m_cost, const uint32_t parallelism, const void *pwd, const size_t pwdlen,
                       const void *salt, const size_t saltlen, void *hash, const size_t hashlen, char *encoded, const size_t encodedlen, argon2_type type)
{
    (void) t_cost; (void) m_cost; (void) parallelism; (void) encoded; (void) encodedlen; (void) type;
    __CPROVER_assert((pwdlen == 0 || __CPROVER_r_ok(pwd, pwdlen)) && __CPROVER_r_ok(salt, saltlen) && __CPROVER_w_ok(hash, hashlen), "argon2_hash called with live buffers of the stated sizes");
    if (hashlen) __CPROVER_havoc_slice(hash, hashlen);
    if (next_fails_()) { g_alloc_failed = 1; return ARGON2_MEMORY_ALLOCATION_ERROR; }
    return vin.enc_ret ? ARGON2_MEMORY_TOO_LITTLE : ARGON2_OK;
}

static void reset_(void) { g_alloc_failed = 0; g_alloc_ix = 0; g_live = 0; g_map_live = 0; g_bad_unmap = 0; v_misuse_expected = 0; }

void hf_hash(void)
{
    VIN_GET(); reset_();
    VASSUME(vin.m_cost <= 8 && vin.t_cost <= 2 && vin.pwdlen <= 16 && vin.hashlen <= 64 && vin.enclen <= 128 && (vin.type == 1 || vin.type == 2));
    unsigned char pwd[16], salt[16], hash[64]; char enc[128]; int r;
    unsigned char h0 = 0x5a; hash[0] = h0;
    r = argon2_hash(vin.t_cost, vin.m_cost, 1, pwd, vin.pwdlen, salt, 16, vin.want_hash ? hash : NULL, vin.hashlen, vin.want_enc ? enc : NULL, vin.enclen, (argon2_type) vin.type);
    VASSERT("an allocation or mapping failure makes argon2_hash return an error, never ARGON2_OK", !g_alloc_failed || r != ARGON2_OK);
    VASSERT("nothing is leaked: every allocation and the mapping are released on every path", g_live == 0 && !g_map_live);
    VASSERT("the mapping is unmapped at most once and only with its own address and size", !g_bad_unmap);
    VREACH("hf_hash");
}

void hf_verify(void)
{
    VIN_GET(); reset_();
    VASSUME(vin.pwdlen <= 16 && vin.enclen == 12 && vin.dec_m <= 8 && vin.dec_t <= 2 && (vin.type == 1 || vin.type == 2));
    unsigned char pwd[16]; char enc[65]; size_t i; int r;
    for (i = 0; i < 12; i++) enc[i] = 'a';
    enc[vin.enclen] = 0;
    r = argon2_verify(enc, pwd, vin.pwdlen, (argon2_type) vin.type);
    VASSERT("an allocation or mapping failure never lets verification report a match", !g_alloc_failed || r != ARGON2_OK);
    VASSERT("a match is reported only if the constant-time comparison of the recomputed hash returned equal", r != ARGON2_OK || (vin.cmp_ret == 0 && vin.dec_ret == 0));
    VASSERT("nothing is leaked or freed twice", g_live == 0 && !g_map_live && !g_bad_unmap);
    VREACH("hf_verify");
}
