/* Direct (replayable) harnesses for utils.c: bounded stand-ins (len <= VMAX, every content) whose counterexamples
 * are replayed natively.  Specification side: little-endian integers as unsigned __int128 (VMAX <= 16). */
#include "vharness.h"
#include <stdlib.h>
#include "sodium/utils.c"

#ifndef VMAX
# define VMAX 16
#endif
typedef unsigned __int128 u128;

struct vin_t { size_t len; unsigned char a[VMAX]; unsigned char b[VMAX]; };
struct vin_t nondet_vin(void);
struct vin_t vin;

#ifdef VNATIVE
void sodium_misuse(void) { printf("REPLAY FAILED sodium_misuse called\n"); exit(1); }
#else
void sodium_misuse(void) { __CPROVER_assert(0, "sodium_misuse reachable"); __CPROVER_assume(0); }
#endif

#ifndef VNATIVE
/* assumed libc contract: explicit_bzero(s, n) sets s[0..n) to zero (glibc; not part of the repository) */
void explicit_bzero(void *s, size_t n) { unsigned char *p = s; size_t i; for (i = 0; i < n; i++) p[i] = 0; }
#endif

static u128 le(const unsigned char *p, size_t n) { u128 v = 0; size_t i; for (i = n; i > 0; i--) v = (v << 8) | p[i - 1]; return v; }
static u128 mask(size_t n) { return n >= 16 ? ~(u128) 0 : (((u128) 1) << (8 * n)) - 1; }

static unsigned char *dup_(const unsigned char *src, size_t n)
{
    unsigned char *p = malloc(n ? n : 1);
    size_t i;
#ifndef VNATIVE
    __CPROVER_assume(p != NULL);
    if (n == 0) { free(p); p = malloc(0); __CPROVER_assume(p != NULL); }
#endif
    for (i = 0; i < n; i++) p[i] = src[i];
    return p;
}

void hb_memcmp(void)
{
    VIN_GET(); VASSUME(vin.len <= VMAX);
    unsigned char *a = dup_(vin.a, vin.len), *b = dup_(vin.b, vin.len);
    int eq = 1; size_t i;
    for (i = 0; i < vin.len; i++) if (vin.a[i] != vin.b[i]) eq = 0;
    int r = sodium_memcmp(a, b, vin.len);
    VASSERT("sodium_memcmp returns 0 iff equal else -1", r == (eq ? 0 : -1));
    VREACH("hb_memcmp");
}

void hb_is_zero(void)
{
    VIN_GET(); VASSUME(vin.len <= VMAX);
    unsigned char *a = dup_(vin.a, vin.len);
    int z = 1; size_t i;
    for (i = 0; i < vin.len; i++) if (vin.a[i] != 0) z = 0;
    int r = sodium_is_zero(a, vin.len);
    VASSERT("sodium_is_zero returns 1 iff all zero else 0", r == z);
    VREACH("hb_is_zero");
}

void hb_compare(void)
{
    VIN_GET(); VASSUME(vin.len <= VMAX);
    unsigned char *a = dup_(vin.a, vin.len), *b = dup_(vin.b, vin.len);
    u128 x = le(vin.a, vin.len), y = le(vin.b, vin.len);
    int r = sodium_compare(a, b, vin.len);
    VASSERT("sodium_compare = little-endian numeric order", r == (x < y ? -1 : (x > y ? 1 : 0)));
    VREACH("hb_compare");
}

void hb_increment(void)
{
    VIN_GET(); VASSUME(vin.len <= VMAX);
    unsigned char *a = dup_(vin.a, vin.len);
    u128 x = le(vin.a, vin.len);
    sodium_increment(a, vin.len);
    VASSERT("sodium_increment = +1 mod 2^(8 len)", le(a, vin.len) == ((x + 1) & mask(vin.len)) || vin.len == 0);
    VREACH("hb_increment");
}

void hb_add(void)
{
    VIN_GET(); VASSUME(vin.len <= VMAX);
    unsigned char *a = dup_(vin.a, vin.len), *b = dup_(vin.b, vin.len);
    u128 x = le(vin.a, vin.len), y = le(vin.b, vin.len);
    size_t i; int bsame = 1;
    sodium_add(a, b, vin.len);
    for (i = 0; i < vin.len; i++) if (b[i] != vin.b[i]) bsame = 0;
    VASSERT("sodium_add = a+b mod 2^(8 len)", vin.len == 0 || le(a, vin.len) == ((x + y) & mask(vin.len)));
    VASSERT("sodium_add leaves b unchanged", bsame);
    VREACH("hb_add");
}

void hb_sub(void)
{
    VIN_GET(); VASSUME(vin.len <= VMAX);
    unsigned char *a = dup_(vin.a, vin.len), *b = dup_(vin.b, vin.len);
    u128 x = le(vin.a, vin.len), y = le(vin.b, vin.len);
    sodium_sub(a, b, vin.len);
    VASSERT("sodium_sub = a-b mod 2^(8 len)", vin.len == 0 || le(a, vin.len) == ((x - y) & mask(vin.len)));
    VREACH("hb_sub");
}

/* memzero: buffer of VMAX bytes, wipe [off, off+len): exactly those become zero, the rest is untouched */
void hb_memzero(void)
{
    VIN_GET(); VASSUME(vin.len <= VMAX);
    size_t off = vin.b[0]; VASSUME(off <= VMAX - vin.len);
    unsigned char buf[VMAX]; size_t i; int ok = 1;
    for (i = 0; i < VMAX; i++) buf[i] = vin.a[i];
    sodium_memzero(buf + off, vin.len);
    for (i = 0; i < VMAX; i++) {
        if (i >= off && i < off + vin.len) { if (buf[i] != 0) ok = 0; }
        else if (buf[i] != vin.a[i]) ok = 0;
    }
    VASSERT("sodium_memzero zeroes exactly the requested bytes", ok);
    VREACH("hb_memzero");
}

VNATIVE_MAIN(VENTRY)
