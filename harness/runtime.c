/* sodium/runtime.c (C10): the CPU feature flags the library reports are sound: a flag is set only if the CPUID bits and
 * the XCR0 bits (OS support) that the feature requires are present.  CPUID / XGETBV are assumed instruction models
 * (stubs returning arbitrary register values); compiled with every SIMD header switch on and HAVE__XGETBV so that
 * XCR0 enters through a function instead of inline assembly (same C line, different configure branch). */
#include "vharness.h"
#include <stdint.h>
struct vin_t { unsigned int l0[4], l1[4], l7[4]; uint32_t xcr0; };
struct vin_t nondet_vin(void);
struct vin_t vin;
unsigned long long _xgetbv(unsigned int i) { (void) i; return vin.xcr0; }
void v_cpuid_stub(unsigned int cpu_info[4], const unsigned int type)
{
    const unsigned int *s = type == 0 ? vin.l0 : (type == 1 ? vin.l1 : vin.l7); int i;
    for (i = 0; i < 4; i++) cpu_info[i] = s[i];
}
unsigned long getauxval(unsigned long t) { (void) t; return 0; }
#include "sodium/runtime.c"

void hf_cpu_features(void)
{
    VIN_GET();
    int r = _sodium_runtime_get_cpu_features();
    unsigned ecx = vin.l1[2], edx = vin.l1[3], ebx7 = vin.l7[1]; uint32_t x = vin.xcr0;
    int os_avx = (ecx & 0x1c000000) == 0x1c000000 && (x & 6) == 6;        /* AVX, XSAVE, OSXSAVE ; XCR0.SSE, XCR0.AVX */
    if (vin.l0[0] == 0) {
        VASSERT("no CPUID support: failure reported and no x86 feature claimed", r == -1 && !sodium_runtime_has_sse2() && !sodium_runtime_has_avx() && !sodium_runtime_has_avx2() && !sodium_runtime_has_aesni() && !sodium_runtime_has_pclmul() && !sodium_runtime_has_rdrand());
    } else {
        VASSERT("SSE2 reported only with CPUID.1:EDX.26", !sodium_runtime_has_sse2() || (edx & (1u << 26)));
        VASSERT("SSE3 reported only with CPUID.1:ECX.0", !sodium_runtime_has_sse3() || (ecx & 1u));
        VASSERT("SSSE3 reported only with CPUID.1:ECX.9", !sodium_runtime_has_ssse3() || (ecx & (1u << 9)));
        VASSERT("SSE4.1 reported only with CPUID.1:ECX.19", !sodium_runtime_has_sse41() || (ecx & (1u << 19)));
        VASSERT("AVX reported only with CPUID AVX+XSAVE+OSXSAVE and XCR0 SSE+AVX state enabled by the OS", !sodium_runtime_has_avx() || os_avx);
        VASSERT("AVX2 reported only with AVX and CPUID.7:EBX.5", !sodium_runtime_has_avx2() || (os_avx && (ebx7 & (1u << 5))));
        VASSERT("AVX-512F reported only with AVX2, CPUID.7:EBX.16 and XCR0 opmask/ZMM state", !sodium_runtime_has_avx512f() || (os_avx && (ebx7 & (1u << 5)) && (ebx7 & (1u << 16)) && (x & 0xe0) == 0xe0));
        VASSERT("PCLMUL / AES-NI / RDRAND reported only with their CPUID.1:ECX bits", (!sodium_runtime_has_pclmul() || (ecx & 2u)) && (!sodium_runtime_has_aesni() || (ecx & (1u << 25))) && (!sodium_runtime_has_rdrand() || (ecx & (1u << 30))));
    }
    VASSERT("no ARM feature on x86", !sodium_runtime_has_neon() && !sodium_runtime_has_armcrypto());
    VREACH("hf_cpu_features");
}
VNATIVE_MAIN(VENTRY)
