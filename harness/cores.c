/* Salsa20 cores (20/12/8 rounds), HSalsa20, HChaCha20: real reference code against specification functions,
 * all inputs (finite complete; kissat).  CORE selects the unit. */
#include "vharness.h"
#include "salsa_spec.h"
#if CORE == 0
# include "crypto_core/salsa/ref/core_salsa_ref.c"
#elif CORE == 1
# include "crypto_core/hsalsa20/ref2/core_hsalsa20_ref2.c"
#else
# include "crypto_core/hchacha20/core_hchacha20.c"
#endif
struct vin_t { unsigned char in[16], k[32], c[16]; int have_c; };
struct vin_t nondet_vin(void);
struct vin_t vin;

#if CORE == 0
# ifndef ROUNDS
#  define ROUNDS 20
# endif
void hf_core(void)
{
    VIN_GET();
    unsigned char out[64], want[64]; int i, ok = 1;
# if HAVE_C
    const unsigned char *c = vin.c;
# else
    const unsigned char *c = NULL;
# endif
# if ROUNDS == 20
    crypto_core_salsa20(out, vin.in, vin.k, c);
# elif ROUNDS == 12
    crypto_core_salsa2012(out, vin.in, vin.k, c);
# else
    crypto_core_salsa208(out, vin.in, vin.k, c);
# endif
    sp_salsa_core(want, vin.in, vin.k, c, ROUNDS);
    for (i = 0; i < 64; i++) if (out[i] != want[i]) ok = 0;
    VASSERT("Salsa20 core output = x + doubleround^(rounds/2)(x) of the specification", ok);
    VREACH("hf_core");
}
#else
void hf_core(void)
{
    VIN_GET();
    unsigned char out[32], want[32]; int i, ok = 1;
# if HAVE_C
    const unsigned char *c = vin.c;
# else
    const unsigned char *c = NULL;
# endif
# if CORE == 1
    crypto_core_hsalsa20(out, vin.in, vin.k, c);
    sp_hsalsa20(want, vin.in, vin.k, c);
# else
    crypto_core_hchacha20(out, vin.in, vin.k, c);
    sp_hchacha20(want, vin.in, vin.k, c);
# endif
    for (i = 0; i < 32; i++) if (out[i] != want[i]) ok = 0;
    VASSERT("HSalsa20 / HChaCha20 output equals the specification", ok);
    VREACH("hf_core");
}
#endif
VNATIVE_MAIN(VENTRY)
