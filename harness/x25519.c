/* X25519 reference back end and dispatcher (C05, C12): low-order blocklist, failure reporting, field element
 * encode / decode against integers.  The Montgomery ladder's field multiplications are NOT decided. */
#include "vharness.h"
#include <stdlib.h>
#include <string.h>
#define V_STUB_MEMZERO 1
#define V_MEMZERO_SILENT 1
#include "transcript.h"
/* assumed contract of sodium_is_zero (proved for the real body in C14) */
int sodium_is_zero(const unsigned char *n, const size_t nlen) { size_t i; unsigned char d = 0; for (i = 0; i < nlen; i++) d |= n[i]; return 1 & ((d - 1) >> 8); }
#include "crypto_core/ed25519/ref10/ed25519_ref10.c"
#include "crypto_scalarmult/curve25519/ref10/x25519_ref10.c"
struct vin_t { unsigned char s[32]; uint64_t h[5], g[5]; unsigned b; };
struct vin_t nondet_vin(void);
struct vin_t vin;

/* the seven encodings of the small-order points as little-endian integers: 0, 1, the two order-8 x coordinates,
 * p-1, p, p+1 (cr.yp.to/ecdh.html; RFC 7748 section 6.1 asks to reject the all-zero result they produce) */
static const unsigned char SMALL[7][32] = {
    { 0 }, { 1 },
    { 0xe0, 0xeb, 0x7a, 0x7c, 0x3b, 0x41, 0xb8, 0xae, 0x16, 0x56, 0xe3, 0xfa, 0xf1, 0x9f, 0xc4, 0x6a, 0xda, 0x09, 0x8d, 0xeb, 0x9c, 0x32, 0xb1, 0xfd, 0x86, 0x62, 0x05, 0x16, 0x5f, 0x49, 0xb8, 0x00 },
    { 0x5f, 0x9c, 0x95, 0xbc, 0xa3, 0x50, 0x8c, 0x24, 0xb1, 0xd0, 0xb1, 0x55, 0x9c, 0x83, 0xef, 0x5b, 0x04, 0x44, 0x5c, 0xc4, 0x58, 0x1c, 0x8e, 0x86, 0xd8, 0x22, 0x4e, 0xdd, 0xd0, 0x9f, 0x11, 0x57 },
    { 0xec, 0xff, 0xff, 0xff, 0xff, 0xff, 0xff, 0xff, 0xff, 0xff, 0xff, 0xff, 0xff, 0xff, 0xff, 0xff, 0xff, 0xff, 0xff, 0xff, 0xff, 0xff, 0xff, 0xff, 0xff, 0xff, 0xff, 0xff, 0xff, 0xff, 0xff, 0x7f },
    { 0xed, 0xff, 0xff, 0xff, 0xff, 0xff, 0xff, 0xff, 0xff, 0xff, 0xff, 0xff, 0xff, 0xff, 0xff, 0xff, 0xff, 0xff, 0xff, 0xff, 0xff, 0xff, 0xff, 0xff, 0xff, 0xff, 0xff, 0xff, 0xff, 0xff, 0xff, 0x7f },
    { 0xee, 0xff, 0xff, 0xff, 0xff, 0xff, 0xff, 0xff, 0xff, 0xff, 0xff, 0xff, 0xff, 0xff, 0xff, 0xff, 0xff, 0xff, 0xff, 0xff, 0xff, 0xff, 0xff, 0xff, 0xff, 0xff, 0xff, 0xff, 0xff, 0xff, 0xff, 0x7f } };

void hf_small_order(void)
{
    VIN_GET();
    unsigned char t[32]; int i, k, in = 0;
    for (i = 0; i < 32; i++) t[i] = vin.s[i];
    t[31] &= 0x7f;                                           /* the top bit of the point is ignored */
    for (k = 0; k < 7; k++) if (v_eq(t, SMALL[k], 32)) in = 1;
    VASSERT("has_small_order(s) == 1 exactly for the seven low-order encodings, with either value of the ignored top bit", has_small_order(vin.s) == in);
    VREACH("hf_small_order");
}

#ifndef VNATIVE
typedef unsigned __CPROVER_bitvector[330] big;
static big big_of_bytes(const unsigned char *s, int n) { big v = 0; int i; for (i = n - 1; i >= 0; i--) v = (v << 8) | s[i]; return v; }
void hf_fe_codec(void)
{
    VIN_GET();
    fe25519 f, g; unsigned char out[32], back[32]; int i;
    big P = ((big) 1 << 255) - 19, S = big_of_bytes(vin.s, 32) & (((big) 1 << 255) - 1), F, H;
    /* decode: bit 255 ignored, five 51-bit limbs */
    fe25519_frombytes(f, vin.s);
    F = (big) f[0] + ((big) f[1] << 51) + ((big) f[2] << 102) + ((big) f[3] << 153) + ((big) f[4] << 204);
    VASSERT("frombytes: limbs below 2^51 and value = the low 255 bits of the little-endian string", f[0] < (1ULL << 51) && f[1] < (1ULL << 51) && f[2] < (1ULL << 51) && f[3] < (1ULL << 51) && f[4] < (1ULL << 51) && F == S);
    /* encode: canonical representative for every limb vector below 2^54 (adds / subs of reduced elements stay below) */
    VASSUME(vin.h[0] < (1ULL << 54) && vin.h[1] < (1ULL << 54) && vin.h[2] < (1ULL << 54) && vin.h[3] < (1ULL << 54) && vin.h[4] < (1ULL << 54));
    for (i = 0; i < 5; i++) g[i] = vin.h[i];
    H = (big) g[0] + ((big) g[1] << 51) + ((big) g[2] << 102) + ((big) g[3] << 153) + ((big) g[4] << 204);
    fe25519_tobytes(out, g);
    VASSERT("tobytes: the canonical encoding, i.e. (value mod 2^255-19) in 32 little-endian bytes, also for values >= p and unreduced limbs", big_of_bytes(out, 32) == H % P);
    fe25519_tobytes(back, f);
    VASSERT("decode then encode: a non-canonical input (>= p) comes back reduced", big_of_bytes(back, 32) == S % P);
    VREACH("hf_fe_codec");
}
/* linear field operations of fe_51 against integers modulo p = 2^255-19, for every pair of limb vectors below 2^54
 * (what additions of multiplication results can produce); mul32 with the ladder's constant 121666 */
/* x mod p for x < 2^qbits * p, by peeling the quotient bits (no divider circuit) */
static big mod_small_(big x, int qbits) { big P = ((big) 1 << 255) - 19; int i; for (i = qbits - 1; i >= 0; i--) if (x >= (P << i)) x -= (P << i); return x; }
/* x == y + k*p for some lo <= k <= hi (constant range: a handful of comparisons with constants) */
static int small_multiple_(big x, big y, int lo, int hi) { big P = ((big) 1 << 255) - 19, m = P * lo; int k, ok = 0; for (k = lo; k <= hi; k++) { if (x == y + m) ok = 1; m += P; } return ok; }
static big val_(const fe25519 f) { return (big) f[0] + ((big) f[1] << 51) + ((big) f[2] << 102) + ((big) f[3] << 153) + ((big) f[4] << 204); }
void hf_fe_linear(void)
{
    VIN_GET();
    fe25519 f, g, h, f2, g2; int i; big F, G; unsigned b = vin.b & 1;
    for (i = 0; i < 5; i++) { VASSUME(vin.h[i] < (1ULL << 54) && vin.g[i] < (1ULL << 54)); f[i] = vin.h[i]; g[i] = vin.g[i]; }
    F = val_(f); G = val_(g);
    fe25519_add(h, f, g);
    VASSERT("fe25519_add: value = f + g exactly (no reduction, no limb overflow)", val_(h) == F + G && h[0] == f[0] + g[0] && h[4] == f[4] + g[4]);
    for (i = 0; i < 5; i++) { f2[i] = f[i]; g2[i] = g[i]; }
    fe25519_cswap(f2, g2, b);
    VASSERT("fe25519_cswap: exchanges the two elements exactly when b == 1", v_eq((unsigned char *) f2, (unsigned char *) (b ? g : f), 40) && v_eq((unsigned char *) g2, (unsigned char *) (b ? f : g), 40));
    for (i = 0; i < 5; i++) f2[i] = f[i];
    fe25519_cmov(f2, g, b);
    VASSERT("fe25519_cmov: f := g exactly when b == 1", v_eq((unsigned char *) f2, (unsigned char *) (b ? g : f), 40));
    VASSERT("fe25519_isnegative = low bit of the canonical value; fe25519_iszero = (value mod p == 0)", fe25519_isnegative(f) == (int) (mod_small_(F, 8) & 1) && fe25519_iszero(f) == (mod_small_(F, 8) == 0));
    fe25519_1(h); VASSERT("fe25519_1 = 1", val_(h) == 1);
    fe25519_0(h); VASSERT("fe25519_0 = 0", val_(h) == 0);
    fe25519_copy(h, f); VASSERT("fe25519_copy", val_(h) == F && h[0] == f[0]);
    VREACH("hf_fe_linear");
}
void hf_fe_sub(void)
{
    VIN_GET();
    fe25519 f, g, h; int i; big F, G;
    for (i = 0; i < 5; i++) { VASSUME(vin.h[i] < (1ULL << 54) && vin.g[i] < (1ULL << 54)); f[i] = vin.h[i]; g[i] = vin.g[i]; }
    F = val_(f); G = val_(g);
    fe25519_sub(h, f, g);
    VASSERT("fe25519_sub: value congruent to f - g modulo p, no limb underflow, limbs below 2^55", small_multiple_(val_(h) + G, F, 2, 20) && h[0] < (1ULL << 55) && h[1] < (1ULL << 55) && h[2] < (1ULL << 55) && h[3] < (1ULL << 55) && h[4] < (1ULL << 55));
    fe25519_neg(h, f);
    VASSERT("fe25519_neg: value congruent to -f modulo p", mod_small_(val_(h) + F, 8) == 0);
    VREACH("hf_fe_sub");
}
/* not registered: the SAT back end did not finish this one in 400 s (constant multiplication through 128-bit products) */
void hf_fe_mul32(void)
{
    VIN_GET();
    fe25519 f, h; int i; big F;
    for (i = 0; i < 5; i++) { VASSUME(vin.h[i] < (1ULL << 54)); f[i] = vin.h[i]; }
    F = val_(f);
    fe25519_mul32(h, f, 121666);
    VASSERT("fe25519_mul32 with the ladder constant 121666: value congruent to 121666 * f modulo p, limbs below 2^52", F * 121666 >= val_(h) && mod_small_(F * 121666 - val_(h), 24) == 0 && h[0] < (1ULL << 52) && h[1] < (1ULL << 51) && h[2] < (1ULL << 51) && h[3] < (1ULL << 51) && h[4] < (1ULL << 51));
    VREACH("hf_fe_mul32");
}
#endif
/* ---- ladder structure: the field operations are replaced (goto-instrument --replace-calls) by stubs; the conditional swap
 * stub records its swap bit.  Decides: the scalar is clamped (RFC 7748: clear bits 0,1,2 and 255, set bit 254), the ladder
 * consumes exactly bits 254..0 of the clamped scalar, top to bottom, and low-order points are refused up front. ---- */
static unsigned n_swap; static unsigned char swaps[520]; static int n_frombytes, n_tobytes; static const void *fb_src;
void s_fe_cswap(fe25519 f, fe25519 g, unsigned int b) { (void) f; (void) g; if (n_swap < 520) swaps[n_swap] = (unsigned char) b; n_swap++; }
void s_fe_binop(fe25519 h, const fe25519 f, const fe25519 g) { (void) h; (void) f; (void) g; }
void s_fe_unop(fe25519 h, const fe25519 f) { (void) h; (void) f; }
void s_fe_mul32(fe25519 h, const fe25519 f, uint32_t n) { (void) h; (void) f; (void) n; }
void s_fe_frombytes(fe25519 h, const unsigned char *s) { (void) h; n_frombytes++; fb_src = s; }
void s_fe_tobytes(unsigned char *s, const fe25519 h) { (void) h; n_tobytes++; memset(s, 0x5a, 32); }
void hf_ladder(void)
{
    VIN_GET();
    unsigned char n[32], q[32], t[32]; int i, r, pos, ok = 1; unsigned prev = 0, bit;
    for (i = 0; i < 32; i++) n[i] = (unsigned char) (vin.h[i % 5] >> (8 * (i % 7)));
    n_swap = 0; n_frombytes = n_tobytes = 0;
    r = crypto_scalarmult_curve25519_ref10(q, n, vin.s);
    if (has_small_order(vin.s)) { VASSERT("a low-order point is refused before any field arithmetic", r == -1 && n_swap == 0 && n_frombytes == 0); }
    else {
        for (i = 0; i < 32; i++) t[i] = n[i];
        t[0] &= 248; t[31] &= 127; t[31] |= 64;                     /* RFC 7748 decodeScalar25519 */
        VASSERT("the point is decoded from the caller's 32 bytes and the result is encoded once", r == 0 && n_frombytes == 1 && fb_src == vin.s && n_tobytes == 1);
        VASSERT("two conditional swaps per ladder step for the 255 steps plus the final pair", n_swap == 2 * 255 + 2);
        for (pos = 254, i = 0; pos >= 0; pos--, i++) {
            bit = (t[pos / 8] >> (pos & 7)) & 1;
            if (swaps[2 * i] != (prev ^ bit) || swaps[2 * i + 1] != (prev ^ bit)) ok = 0;
            prev = bit;
        }
        if (swaps[510] != prev || swaps[511] != prev) ok = 0;
        VASSERT("the swap sequence is that of the Montgomery ladder over bits 254..0 of the CLAMPED scalar (bit 254 set, bits 0-2 and 255 cleared)", ok);
    }
    VREACH("hf_ladder");
}

VNATIVE_MAIN(VENTRY)
