/* dfcc entry points for unbounded obligations on codecs.c */
#include "sodium/codecs.c"
size_t g_k, g_m; char g_oldc;
void sodium_misuse(void) { __CPROVER_assert(0, "sodium_misuse reachable for an in-contract call"); __CPROVER_assume(0); }
void hu_bin2hex(void) { char *h; size_t hm; const unsigned char *b; size_t bl; sodium_bin2hex(h, hm, b, bl); }
