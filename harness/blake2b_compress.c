/* BLAKE2b reference compression function vs RFC 7693 F, every chaining value / block / counter / flags (C04) */
#include "vharness.h"
#include <string.h>
#include "blake2b_spec.h"
#include "crypto_generichash/blake2b/ref/blake2b-compress-ref.c"
struct vin_t { uint64_t h[8], t[2], f[2]; unsigned char block[128]; };
struct vin_t nondet_vin(void);
struct vin_t vin;
void hf_compress(void)
{
    VIN_GET();
    blake2b_state S; uint64_t h[8], m[16]; int i, j, ok = 1;
    memset(&S, 0, sizeof S);
    for (i = 0; i < 8; i++) { S.h[i] = vin.h[i]; h[i] = vin.h[i]; }
    S.t[0] = vin.t[0]; S.t[1] = vin.t[1]; S.f[0] = vin.f[0]; S.f[1] = vin.f[1];
    for (i = 0; i < 16; i++) { m[i] = 0; for (j = 7; j >= 0; j--) m[i] = (m[i] << 8) | vin.block[8 * i + j]; }
    blake2b_compress_ref(&S, vin.block);
    sp_blake2b_F(h, m, vin.t[0], vin.t[1], vin.f[0], vin.f[1]);
    for (i = 0; i < 8; i++) if (S.h[i] != h[i]) ok = 0;
    VASSERT("BLAKE2b reference compression = F of RFC 7693 for every chaining value, message block, counter and finalisation flags", ok);
    VASSERT("counter and flags are left untouched", S.t[0] == vin.t[0] && S.t[1] == vin.t[1] && S.f[0] == vin.f[0] && S.f[1] == vin.f[1]);
    VREACH("hf_compress");
}
VNATIVE_MAIN(VENTRY)
