/* Ristretto255 API wrappers (C07, C18, C12): decoding failures are reported, scalar multiplication never clamps, identity
 * results are errors.  ristretto255_frombytes / p3_tobytes / from_hash and the group operations are assumed callees. */
#include "vharness.h"
#include <stdlib.h>
#include <string.h>
#include "transcript.h"
#include "private/ed25519_ref10.h"
struct vin_t { unsigned char n[32], p[32], q[32], enc[32]; int fb[2], which; };
struct vin_t nondet_vin(void);
struct vin_t vin;
static unsigned n_fb, n_sm, n_smb, n_add, n_sub, n_rand, n_fh; static const void *fb_arg[2], *rand_ptr; static size_t rand_len; static unsigned char sm_scalar[32];
int ristretto255_frombytes(ge25519_p3 *h, const unsigned char *s) { int r = n_fb < 2 ? vin.fb[n_fb] : 0; (void) h; if (n_fb < 2) fb_arg[n_fb] = s; n_fb++; return r ? -1 : 0; }
void ristretto255_p3_tobytes(unsigned char *s, const ge25519_p3 *h) { (void) h; memcpy(s, vin.enc, 32); }
void ristretto255_from_hash(unsigned char s[32], const unsigned char h[64]) { (void) h; n_fh++; memcpy(s, vin.enc, 32); }
void ge25519_scalarmult(ge25519_p3 *h, const unsigned char *a, const ge25519_p3 *p) { (void) h; (void) p; n_sm++; memcpy(sm_scalar, a, 32); }
void ge25519_scalarmult_base(ge25519_p3 *h, const unsigned char *a) { (void) h; n_smb++; memcpy(sm_scalar, a, 32); }
void ge25519_p3_add(ge25519_p3 *r, const ge25519_p3 *p, const ge25519_p3 *q) { (void) r; (void) p; (void) q; n_add++; }
void ge25519_p3_sub(ge25519_p3 *r, const ge25519_p3 *p, const ge25519_p3 *q) { (void) r; (void) p; (void) q; n_sub++; }
int sodium_is_zero(const unsigned char *n, const size_t nlen) { return v_is_zero(n, nlen); }
void randombytes_buf(void *const buf, const size_t size) { n_rand++; rand_ptr = buf; rand_len = size; v_out(buf, size); }
int core_h2c_string_to_hash(unsigned char *h, const size_t h_len, const char *ctx, const unsigned char *msg, size_t msg_len, int hash_alg) { (void) ctx; (void) msg; (void) msg_len; (void) hash_alg; v_out(h, h_len); return 0; }
void crypto_core_ed25519_scalar_random(unsigned char *r) { (void) r; }
int crypto_core_ed25519_scalar_invert(unsigned char *recip, const unsigned char *s) { (void) recip; (void) s; return 0; }
void crypto_core_ed25519_scalar_negate(unsigned char *neg, const unsigned char *s) { (void) neg; (void) s; }
void crypto_core_ed25519_scalar_complement(unsigned char *comp, const unsigned char *s) { (void) comp; (void) s; }
void crypto_core_ed25519_scalar_add(unsigned char *z, const unsigned char *x, const unsigned char *y) { (void) z; (void) x; (void) y; }
void crypto_core_ed25519_scalar_sub(unsigned char *z, const unsigned char *x, const unsigned char *y) { (void) z; (void) x; (void) y; }
void crypto_core_ed25519_scalar_mul(unsigned char *z, const unsigned char *x, const unsigned char *y) { (void) z; (void) x; (void) y; }
void crypto_core_ed25519_scalar_reduce(unsigned char *r, const unsigned char *s) { (void) r; (void) s; }
int crypto_core_ed25519_scalar_is_canonical(const unsigned char *s) { (void) s; return 1; }
#include "crypto_core/ed25519/core_ristretto255.c"
#include "crypto_scalarmult/ristretto255/ref10/scalarmult_ristretto255_ref10.c"
static void reset_(void) { n_fb = n_sm = n_smb = n_add = n_sub = n_rand = n_fh = 0; }
void hf_ristretto_points(void)
{
    VIN_GET(); reset_();
    unsigned char r[32]; int rc;
    VASSERT("is_valid_point == the Ristretto decoding succeeds", crypto_core_ristretto255_is_valid_point(vin.p) == (vin.fb[0] ? 0 : 1));
    reset_(); memset(r, 0xA5, 32);
    rc = vin.which ? crypto_core_ristretto255_sub(r, vin.p, vin.q) : crypto_core_ristretto255_add(r, vin.p, vin.q);
    if (vin.fb[0] || vin.fb[1]) VASSERT("add / sub reject an invalid encoding of either operand and write nothing", rc == -1 && r[0] == 0xA5 && n_add == 0 && n_sub == 0);
    else VASSERT("add / sub encode p (+/-) q", rc == 0 && fb_arg[0] == vin.p && fb_arg[1] == vin.q && (vin.which ? n_sub == 1 : n_add == 1) && v_eq(r, vin.enc, 32));
    reset_();
    crypto_core_ristretto255_random(r);
    VASSERT("random element: 64 uniform bytes from the random source mapped through from_hash", n_rand == 1 && rand_len == 64 && n_fh == 1 && v_eq(r, vin.enc, 32));
    VREACH("hf_ristretto_points");
}
void hf_ristretto_scalarmult(void)
{
    VIN_GET(); reset_();
    unsigned char q[32], want[32]; int r, i;
    for (i = 0; i < 32; i++) want[i] = vin.n[i];
    want[31] &= 127;                                              /* no clamping: only bit 255 is cleared */
    r = vin.which ? crypto_scalarmult_ristretto255_base(q, vin.n) : crypto_scalarmult_ristretto255(q, vin.n, vin.p);
    if (!vin.which && vin.fb[0]) VASSERT("an invalid point encoding is rejected before any multiplication", r == -1 && n_sm == 0);
    else {
        VASSERT("the scalar is used without clamping", (vin.which ? n_smb == 1 : n_sm == 1) && v_eq(sm_scalar, want, 32));
        VASSERT("an identity result (all-zero encoding) is reported as an error, anything else succeeds", r == (v_is_zero(vin.enc, 32) ? -1 : 0) && v_eq(q, vin.enc, 32));
    }
    VREACH("hf_ristretto_scalarmult");
}
VNATIVE_MAIN(VENTRY)
