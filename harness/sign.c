/* Ed25519 signing and key generation data flow (C06, C18, C12): sign.c and keypair.c against RFC 8032 5.1.5 / 5.1.6 with
 * SHA-512 and the group / scalar operations as assumed callees (logging stubs with arbitrary-but-known results). */
#include "vharness.h"
#include <stdlib.h>
#include <string.h>
#define V_STUB_MEMZERO 1
#define V_MEMZERO_SILENT 1
#if !defined(VNATIVE) && defined(VSIGN_OVERLAP)
# define V_STUB_MEMMOVE 1
#endif
#include "transcript.h"
#include "private/ed25519_ref10.h"
#include "crypto_hash_sha512.h"
struct vin_t { unsigned long long mlen; unsigned char sk[64], seed[32], d[4][64], renc[32], s_out[32]; int prehashed, lenp_null; unsigned char ov[2 * 96 + 80 + 64 + 8]; uint64_t px[5], py[5], pt[5], inv[5], prod[5]; int r_dec, r_so, r_ms; unsigned char pk[32], out0[32]; };
struct vin_t nondet_vin(void);
struct vin_t vin;
VMISUSE_DEFINE
enum { E_HINIT = 1, E_HUPD, E_HFIN, E_HONE, E_RED, E_SMB, E_TOB, E_MULADD, E_RAND };
struct ev { int op; const void *p, *q; unsigned long long len; int flag; } lg[32]; unsigned ln, nd;
static struct ev *pe(int op) { struct ev *e = &lg[ln < 32 ? ln : 31]; ln++; e->op = op; e->p = e->q = NULL; e->len = 0; e->flag = 0; return e; }
static int got64; static const unsigned char *g_sigptr; static unsigned char smb_scalar[64], ma_a[32], ma_b[32], ma_c[32], hone_in[32], upd64[64];
static const unsigned char DOM2[34] = { 'S','i','g','E','d','2','5','5','1','9',' ','n','o',' ','E','d','2','5','5','1','9',' ','c','o','l','l','i','s','i','o','n','s', 1, 0 };
int crypto_hash_sha512_init(crypto_hash_sha512_state *s) { (void) s; pe(E_HINIT); return 0; }
int crypto_hash_sha512_update(crypto_hash_sha512_state *s, const unsigned char *in, unsigned long long inlen)
{ struct ev *e = pe(E_HUPD); (void) s; v_in(in, inlen); e->p = in; e->len = inlen; if (inlen == 34 && v_eq(in, DOM2, 34)) e->flag = 1; if (inlen == 64 && in == g_sigptr) { memcpy(upd64, in, 64); got64 = 1; } return 0; }
int crypto_hash_sha512_final(crypto_hash_sha512_state *s, unsigned char *out) { struct ev *e = pe(E_HFIN); (void) s; e->p = out; memcpy(out, vin.d[nd < 4 ? nd : 3], 64); nd++; return 0; }
int crypto_hash_sha512(unsigned char *out, const unsigned char *in, unsigned long long inlen) { struct ev *e = pe(E_HONE); e->p = in; e->len = inlen; if (inlen == 32) memcpy(hone_in, in, 32); memcpy(out, vin.d[nd < 4 ? nd : 3], 64); nd++; return 0; }
void sc25519_reduce(unsigned char s[64]) { struct ev *e = pe(E_RED); e->p = s; }
void ge25519_scalarmult_base(ge25519_p3 *h, const unsigned char *a) { struct ev *e = pe(E_SMB); (void) h; e->p = a; memcpy(smb_scalar, a, 32); }
void ge25519_p3_tobytes(unsigned char *s, const ge25519_p3 *h) { struct ev *e = pe(E_TOB); (void) h; e->p = s; memcpy(s, vin.renc, 32); }
void sc25519_muladd(unsigned char s[32], const unsigned char a[32], const unsigned char b[32], const unsigned char c[32]) { struct ev *e = pe(E_MULADD); e->p = s; memcpy(ma_a, a, 32); memcpy(ma_b, b, 32); memcpy(ma_c, c, 32); memcpy(s, vin.s_out, 32); }
void randombytes_buf(void *const buf, const size_t size) { struct ev *e = pe(E_RAND); e->p = buf; e->len = size; v_out(buf, size); }
#if defined(VNATIVE) || !defined(VPK2CURVE)
int ge25519_frombytes_negate_vartime(ge25519_p3 *h, const unsigned char *s) { (void) h; (void) s; return 0; }
int ge25519_has_small_order(const ge25519_p3 *p) { (void) p; return 0; }
int ge25519_is_on_main_subgroup(const ge25519_p3 *p) { (void) p; return 1; }
void fe25519_invert(fe25519 out, const fe25519 z) { (void) out; (void) z; }
void fe25519_tobytes(unsigned char *s, const fe25519 h) { (void) h; (void) s; }
#else
/* ---- crypto_sign_ed25519_pk_to_curve25519 (hf_pk_to_curve): point decoding and the two order tests are assumed callees
 * with arbitrary verdicts, inversion / multiplication / encoding are assumed callees with arbitrary results whose OPERANDS
 * are recorded as integers; fe25519_1 / add / sub are the real fe_51 code (decided against integers in c05.f.fe_linear / fe_sub) */
typedef unsigned __CPROVER_bitvector[330] big;
static big val_(const fe25519 f) { return (big) f[0] + ((big) f[1] << 51) + ((big) f[2] << 102) + ((big) f[3] << 153) + ((big) f[4] << 204); }
static int small_multiple_(big x, big y, int lo, int hi) { big P = ((big) 1 << 255) - 19, m = P * lo; int k, ok = 0; for (k = lo; k <= hi; k++) { if (x == y + m) ok = 1; m += P; } return ok; }
static int n_dec, n_so, n_ms, n_inv, n_mul, n_enc; static const void *dec_src, *dec_dst, *so_arg, *ms_arg, *enc_dst; static big inv_in, mul_f, mul_g, enc_in;
int ge25519_frombytes_negate_vartime(ge25519_p3 *h, const unsigned char *s)
{ int i; n_dec++; dec_src = s; dec_dst = h; for (i = 0; i < 5; i++) { h->X[i] = vin.px[i]; h->Y[i] = vin.py[i]; h->T[i] = vin.pt[i]; h->Z[i] = (i == 0); } return vin.r_dec; }
int ge25519_has_small_order(const ge25519_p3 *p) { n_so++; so_arg = p; return vin.r_so; }
int ge25519_is_on_main_subgroup(const ge25519_p3 *p) { n_ms++; ms_arg = p; return vin.r_ms; }
void fe25519_invert(fe25519 out, const fe25519 z) { int i; n_inv++; inv_in = val_(z); for (i = 0; i < 5; i++) out[i] = vin.inv[i]; }
void s_fe_mul(fe25519 h, const fe25519 f, const fe25519 g) { int i; n_mul++; mul_f = val_(f); mul_g = val_(g); for (i = 0; i < 5; i++) h[i] = vin.prod[i]; }
void fe25519_tobytes(unsigned char *s, const fe25519 h) { n_enc++; enc_dst = s; enc_in = val_(h); memcpy(s, vin.renc, 32); }
#endif
#include "crypto_sign/ed25519/ref10/sign.c"
#include "crypto_sign/ed25519/ref10/keypair.c"

void hf_sign_detached(void)
{
    VIN_GET(); ln = 0; nd = 0; got64 = 0;
    VASSUME(vin.mlen <= 65535 && (vin.prehashed == 0 || vin.prehashed == 1));
    unsigned char *m = malloc(vin.mlen ? vin.mlen : 1), sig[64], az_clamped[32]; unsigned long long siglen = 99; unsigned i = 0; int r, j;
#ifndef VNATIVE
    __CPROVER_assume(m != NULL);
#endif
    g_sigptr = sig;
    r = _crypto_sign_ed25519_detached(sig, vin.lenp_null ? NULL : &siglen, m, vin.mlen, vin.sk, vin.prehashed);
    VASSERT("returns 0 and reports a 64-byte signature", r == 0 && (vin.lenp_null || siglen == 64));
    /* r = SHA-512([dom2] || az[32..64) || M) where az = SHA-512(sk[0..32)) ; digests: d[0] = az, d[1] = nonce, d[2] = hram */
    VASSERT("hash context for r starts with the dom2 prefix exactly in pre-hashed mode", lg[i].op == E_HINIT && (vin.prehashed ? (lg[i + 1].op == E_HUPD && lg[i + 1].flag == 1) : 1)); i += vin.prehashed ? 2 : 1;
    VASSERT("az = SHA-512(seed half of the secret key)", lg[i].op == E_HONE && lg[i].len == 32 && v_eq(hone_in, vin.sk, 32)); i++;
    VASSERT("r-hash input: az[32..64) then the message", lg[i].op == E_HUPD && lg[i].len == 32 && lg[i + 1].op == E_HUPD && lg[i + 1].p == m && lg[i + 1].len == vin.mlen && lg[i + 2].op == E_HFIN); i += 3;
    VASSERT("r reduced mod L, R = r*B encoded into sig[0..32)", lg[i].op == E_RED && lg[i + 1].op == E_SMB && lg[i + 1].p == lg[i].p && lg[i + 2].op == E_TOB && lg[i + 2].p == sig); i += 3;
    VASSERT("k = SHA-512([dom2] || R || public key || M): the public key is copied behind R before hashing",
            lg[i].op == E_HINIT && (vin.prehashed ? (lg[i + 1].op == E_HUPD && lg[i + 1].flag == 1) : 1)); i += vin.prehashed ? 2 : 1;
    VASSERT("k-hash input: the 64 bytes R || pk, then the message", lg[i].op == E_HUPD && lg[i].p == sig && lg[i].len == 64 && v_eq(upd64, vin.renc, 32) && v_eq(upd64 + 32, vin.sk + 32, 32) &&
            lg[i + 1].op == E_HUPD && lg[i + 1].p == m && lg[i + 1].len == vin.mlen && lg[i + 2].op == E_HFIN); i += 3;
    for (j = 0; j < 32; j++) az_clamped[j] = vin.d[0][j];
    az_clamped[0] &= 248; az_clamped[31] &= 127; az_clamped[31] |= 64;
    VASSERT("k reduced; S = (k * clamp(az[0..32)) + r) computed by muladd into sig[32..64)", lg[i].op == E_RED && lg[i + 1].op == E_MULADD && lg[i + 1].p == sig + 32 &&
            v_eq(ma_a, vin.d[2], 32) && v_eq(ma_b, az_clamped, 32) && v_eq(ma_c, vin.d[1], 32)); i += 2;
    VASSERT("no other primitive calls; signature = R || S", ln == i && v_eq(sig, vin.renc, 32) && v_eq(sig + 32, vin.s_out, 32));
    VREACH("hf_sign_detached");
}

void hf_keypair(void)
{
    VIN_GET(); ln = 0; nd = 0;
    unsigned char pk[32], sk[64], a[32]; int j, r;
    r = crypto_sign_ed25519_seed_keypair(pk, sk, vin.seed);
    for (j = 0; j < 32; j++) a[j] = vin.d[0][j];
    a[0] &= 248; a[31] &= 127; a[31] |= 64;
    VASSERT("seeded key pair: a = clamp(SHA-512(seed)[0..32)), pk = encode(a*B), sk = seed || pk", r == 0 && lg[0].op == E_HONE && lg[0].len == 32 && v_eq(hone_in, vin.seed, 32) &&
            lg[1].op == E_SMB && v_eq(smb_scalar, a, 32) && lg[2].op == E_TOB && ln == 3 && v_eq(pk, vin.renc, 32) && v_eq(sk, vin.seed, 32) && v_eq(sk + 32, vin.renc, 32));
    ln = 0; nd = 0;
    r = crypto_sign_ed25519_keypair(pk, sk);
    VASSERT("random key pair: a 32-byte seed from the random source, then the seeded derivation", r == 0 && lg[0].op == E_RAND && lg[0].len == 32 && lg[1].op == E_HONE && lg[1].p == lg[0].p && ln == 4);
    VREACH("hf_keypair");
}
void hf_sk_to_curve(void)
{
    VIN_GET(); ln = 0; nd = 0;
    unsigned char out[32], a[32]; int j;
    crypto_sign_ed25519_sk_to_curve25519(out, vin.sk);
    for (j = 0; j < 32; j++) a[j] = vin.d[0][j];
    a[0] &= 248; a[31] &= 127; a[31] |= 64;
    VASSERT("Ed25519 secret key -> X25519 secret key: clamp(SHA-512(seed)[0..32)), the same scalar key generation multiplies the base point with", lg[0].op == E_HONE && lg[0].len == 32 && v_eq(hone_in, vin.sk, 32) && v_eq(out, a, 32) && ln == 1);
    VREACH("hf_sk_to_curve");
}
#if !defined(VNATIVE) && defined(VPK2CURVE)
void hf_pk_to_curve(void)
{
    VIN_GET();
    unsigned char out[32]; int i, r, ok; big Y, I, M;
    for (i = 0; i < 5; i++) VASSUME(vin.py[i] < (1ULL << 51) && vin.inv[i] < (1ULL << 52) && vin.prod[i] < (1ULL << 52));   /* what frombytes / invert / mul return */
    memcpy(out, vin.out0, 32);
    Y = (big) vin.py[0] + ((big) vin.py[1] << 51) + ((big) vin.py[2] << 102) + ((big) vin.py[3] << 153) + ((big) vin.py[4] << 204);
    I = (big) vin.inv[0] + ((big) vin.inv[1] << 51) + ((big) vin.inv[2] << 102) + ((big) vin.inv[3] << 153) + ((big) vin.inv[4] << 204);
    M = (big) vin.prod[0] + ((big) vin.prod[1] << 51) + ((big) vin.prod[2] << 102) + ((big) vin.prod[3] << 153) + ((big) vin.prod[4] << 204);
    r = crypto_sign_ed25519_pk_to_curve25519(out, vin.pk);
    ok = (vin.r_dec == 0 && vin.r_so == 0 && vin.r_ms != 0);
    VASSERT("the supplied key is decoded, once", n_dec == 1 && dec_src == (const void *) vin.pk);
    VASSERT("accepted exactly when the point decodes, is not of small order and lies in the main subgroup; otherwise -1", (r == 0) == ok && (r == 0 || r == -1));
    if (vin.r_dec == 0) VASSERT("the small-order test is applied to the decoded point", n_so == 1 && so_arg == dec_dst);
    if (vin.r_dec == 0 && vin.r_so == 0) VASSERT("the main-subgroup test is applied to the decoded point", n_ms == 1 && ms_arg == dec_dst);
    if (!ok) VASSERT("a rejected key writes nothing to the output", v_eq(out, vin.out0, 32) && n_enc == 0);
    if (ok) {
        VASSERT("one inversion, of 1 - y modulo p", n_inv == 1 && small_multiple_(inv_in + Y, 1, 0, 20));
        VASSERT("one multiplication: (1 + y) * (1 - y)^-1 modulo p (RFC 7748 birational map u = (1+y)/(1-y))", n_mul == 1 &&
                ((small_multiple_(mul_f, 1 + Y, 0, 4) && mul_g == I) || (small_multiple_(mul_g, 1 + Y, 0, 4) && mul_f == I)));
        VASSERT("the product is encoded into the caller's buffer", n_enc == 1 && enc_dst == (const void *) out && enc_in == M && v_eq(out, vin.renc, 32));
    }
    VREACH("hf_pk_to_curve");
}
#endif
/* ---- combined form crypto_sign_ed25519 with message and output overlapping (C13): m and sm inside one object at a
 * constant relative offset VDELTA = sm - m; the detached signer is replaced (goto-instrument --replace-calls). ---- */
#ifndef VDELTA
# define VDELTA 0
#endif
#define VOV 96
static int n_sd; static const unsigned char *sd_sig, *sd_m, *sd_sk; static unsigned long long sd_mlen; static unsigned char sd_m_at_g; static size_t sd_g;
int s_sign_detached(unsigned char *sig, unsigned long long *siglen_p, const unsigned char *m, unsigned long long mlen, const unsigned char *sk)
{ n_sd++; sd_sig = sig; sd_m = m; sd_mlen = mlen; sd_sk = sk; if (sd_g < mlen) sd_m_at_g = m[sd_g]; if (siglen_p) *siglen_p = 64; memset(sig, 0x11, 64); return 0; }
void hb_sign_overlap(void)
{
    VIN_GET(); n_sd = 0;
    VASSUME(vin.mlen <= 80);
    static unsigned char big[2 * VOV + 80 + 64 + 8]; unsigned char *m = big + VOV, *sm = big + VOV + (VDELTA), orig = 0; unsigned long long smlen = 9; int r;
    memcpy(big, vin.ov, sizeof big);                                         /* arbitrary buffer contents */
    sd_g = vin.seed[0] % 80;
#ifndef VNATIVE
    v_gidx_mm = sd_g;
#endif
    if (sd_g < vin.mlen) orig = m[sd_g];
    r = crypto_sign_ed25519(sm, &smlen, m, vin.mlen, vin.sk);
    VASSERT("signed message = signature || message: the detached signer is handed the message copy at sm + 64, the output length is mlen + 64", r == 0 && n_sd == 1 && sd_sig == sm && sd_m == sm + 64 && sd_mlen == vin.mlen && sd_sk == vin.sk && smlen == vin.mlen + 64);
    if (sd_g < vin.mlen) VASSERT("the bytes that get signed are the ORIGINAL message bytes whatever the overlap (same result as with disjoint buffers)", sd_m_at_g == orig);
    VREACH("hb_sign_overlap");
}

VNATIVE_MAIN(VENTRY)
