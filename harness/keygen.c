/* generic *_keygen call-site obligation (C18): KG_FN(k) = exactly one randombytes_buf(k, KG_LEN) and nothing else.
 * Built once per translation unit with -DKG_SRC, -DKG_FN, -DKG_LEN. */
#include "vharness.h"
#include <stdlib.h>
#define V_STUB_RANDOMBYTES 1
#include "transcript.h"
#include KG_SRC

struct vin_t { unsigned char pad; };
struct vin_t nondet_vin(void);
struct vin_t vin;

void hf_keygen(void)
{
    VIN_GET();
    unsigned char *k = malloc(KG_LEN);
#ifndef VNATIVE
    __CPROVER_assume(k != NULL);
#endif
    v_nlog = 0;
    KG_FN(k);
    VASSERT("keygen = exactly one request of KEYBYTES bytes from the random source, written to k", v_nlog == 1 && V_EV(0).op == V_OP_RANDOM && V_EV(0).out == k && V_EV(0).len == KG_LEN);
    VREACH("hf_keygen");
}
VNATIVE_MAIN(VENTRY)
