/* _crypto_*_pick_best_implementation (C10): the back end selected at start-up needs only CPU features that were
 * reported present, and falls back to the portable one when none is.  Feature queries are arbitrary stubs; back-end
 * tables are external objects (only their identity matters).  Built with every SIMD header switch on.  PK selects the unit. */
#include "vharness.h"
#include <stdlib.h>
struct vin_t { int sse2, sse3, ssse3, sse41, avx, avx2, avx512f, pclmul, aesni, rdrand, neon, armcrypto; uint64_t t0, t1, inc; };
struct vin_t nondet_vin(void);
struct vin_t vin;
int sodium_runtime_has_sse2(void) { return vin.sse2 != 0; }
int sodium_runtime_has_sse3(void) { return vin.sse3 != 0; }
int sodium_runtime_has_ssse3(void) { return vin.ssse3 != 0; }
int sodium_runtime_has_sse41(void) { return vin.sse41 != 0; }
int sodium_runtime_has_avx(void) { return vin.avx != 0; }
int sodium_runtime_has_avx2(void) { return vin.avx2 != 0; }
int sodium_runtime_has_avx512f(void) { return vin.avx512f != 0; }
int sodium_runtime_has_pclmul(void) { return vin.pclmul != 0; }
int sodium_runtime_has_aesni(void) { return vin.aesni != 0; }
int sodium_runtime_has_rdrand(void) { return vin.rdrand != 0; }
int sodium_runtime_has_neon(void) { return vin.neon != 0; }
int sodium_runtime_has_armcrypto(void) { return vin.armcrypto != 0; }
void randombytes_buf(void *const buf, const size_t size) { (void) buf; (void) size; }
void sodium_misuse(void) { __CPROVER_assume(0); }
#if PK == 0
# include "crypto_stream/chacha20/stream_chacha20.c"
void hf_pick(void)
{
    VIN_GET(); _crypto_stream_chacha20_pick_best_implementation();
    VASSERT("ChaCha20: AVX2 back end only with AVX2, SSSE3 back end only with SSSE3, otherwise the reference code",
            implementation == &crypto_stream_chacha20_dolbeau_avx2_implementation ? vin.avx2 != 0 :
            implementation == &crypto_stream_chacha20_dolbeau_ssse3_implementation ? vin.ssse3 != 0 : implementation == &crypto_stream_chacha20_ref_implementation);
    VASSERT("no usable feature => reference code", (vin.avx2 || vin.ssse3) || implementation == &crypto_stream_chacha20_ref_implementation);
    VREACH("hf_pick");
}
#elif PK == 1
# include "crypto_stream/salsa20/stream_salsa20.c"
void hf_pick(void)
{
    VIN_GET(); _crypto_stream_salsa20_pick_best_implementation();
    VASSERT("Salsa20: AVX2 back end only with AVX2, SSE2 back end only with SSE2, otherwise the reference code (no-asm build)",
            implementation == &crypto_stream_salsa20_xmm6int_avx2_implementation ? vin.avx2 != 0 :
            implementation == &crypto_stream_salsa20_xmm6int_sse2_implementation ? vin.sse2 != 0 : implementation == &crypto_stream_salsa20_ref_implementation);
    VREACH("hf_pick");
}
#elif PK == 2
# include "crypto_onetimeauth/poly1305/onetimeauth_poly1305.c"
void hf_pick(void)
{
    VIN_GET(); _crypto_onetimeauth_poly1305_pick_best_implementation();
    VASSERT("Poly1305: SSE2 back end only with SSE2, otherwise donna", implementation == &crypto_onetimeauth_poly1305_sse2_implementation ? vin.sse2 != 0 : implementation == &crypto_onetimeauth_poly1305_donna_implementation);
    VREACH("hf_pick");
}
#elif PK == 3
# include "crypto_generichash/blake2b/ref/blake2b-ref.c"
void hf_pick(void)
{
    VIN_GET(); blake2b_pick_best_implementation();
    VASSERT("BLAKE2b: AVX2 / SSE4.1 / SSSE3 compression only with that feature, otherwise the reference compression",
            blake2b_compress == blake2b_compress_avx2 ? vin.avx2 != 0 : blake2b_compress == blake2b_compress_sse41 ? vin.sse41 != 0 :
            blake2b_compress == blake2b_compress_ssse3 ? vin.ssse3 != 0 : blake2b_compress == blake2b_compress_ref);
    VREACH("hf_pick");
}
/* the byte counter is a 128-bit little-endian integer in t[0], t[1]: both build variants (128-bit integer type or not) */
void hf_counter(void)
{
    VIN_GET();
    blake2b_state S; unsigned __int128 t = ((unsigned __int128) vin.t1 << 64) | vin.t0;
    S.t[0] = vin.t0; S.t[1] = vin.t1;
    blake2b_increment_counter(&S, vin.inc);
    t += vin.inc;
    VASSERT("BLAKE2b byte counter: t[1]:t[0] += inc as a 128-bit integer (carry into the high word)", S.t[0] == (uint64_t) t && S.t[1] == (uint64_t) (t >> 64));
    VREACH("hf_counter");
}
#elif PK == 4
# include "crypto_aead/aegis128l/aead_aegis128l.c"
void hf_pick(void)
{
    VIN_GET(); _crypto_aead_aegis128l_pick_best_implementation();
    VASSERT("AEGIS-128L: AES-NI back end only with AES-NI and AVX, otherwise the portable (soft) code", implementation == &aegis128l_aesni_implementation ? (vin.aesni && vin.avx) : implementation == &aegis128l_soft_implementation);
    VREACH("hf_pick");
}
#elif PK == 5
# include "crypto_aead/aegis256/aead_aegis256.c"
void hf_pick(void)
{
    VIN_GET(); _crypto_aead_aegis256_pick_best_implementation();
    VASSERT("AEGIS-256: AES-NI back end only with AES-NI and AVX, otherwise the portable (soft) code", implementation == &aegis256_aesni_implementation ? (vin.aesni && vin.avx) : implementation == &aegis256_soft_implementation);
    VREACH("hf_pick");
}
#elif PK == 6
# include "crypto_aead/aes256gcm/aesni/aead_aes256gcm_aesni.c"
void hf_avail(void)
{
    VIN_GET();
    VASSERT("AES-256-GCM reports itself available exactly when PCLMUL, AES-NI and AVX are all present", (crypto_aead_aes256gcm_is_available() != 0) == (vin.pclmul && vin.aesni && vin.avx));
    VREACH("hf_avail");
}
#endif
VNATIVE_MAIN(VENTRY)
