/* vharness.h - shared between CBMC proof harnesses and the native replay of a counterexample.
 *
 * A harness declares ONE input record   struct vin_t { ...scalars and arrays only... };
 * and obtains it with VIN_GET().  Under CBMC the record is a single nondeterministic value (so that the whole
 * input shows up as one assignment to `vin` in the JSON trace); natively it is the initializer VIN_INIT that
 * bin/vcheck generated from that trace.
 *
 *   VASSUME(c)          precondition of the obligation
 *   VASSERT(label, c)   an obligation (function-level postcondition written in the harness)
 *   VREACH(label)       vacuity probe: an assertion that MUST fail; the driver treats SUCCESS as "vacuous"
 */
#ifndef VHARNESS_H
#define VHARNESS_H
#include <stddef.h>
#include <stdint.h>

#ifdef VNATIVE
# include <stdio.h>
# include <stdlib.h>
# include <string.h>
static int v_failed;
# define VIN_GET()  do { static const struct vin_t v_init_ = VIN_INIT; memcpy(&vin, &v_init_, sizeof vin); } while (0)
# define VASSUME(c) do { if (!(c)) { printf("REPLAY assumption-not-met: %s\n", #c); exit(3); } } while (0)
# define VASSERT(label, c) do { if (!(c)) { printf("REPLAY FAILED %s: %s\n", label, #c); v_failed = 1; } } while (0)
# define VREACH(label) do { } while (0)
# define VNATIVE_MAIN(h) int main(void) { h(); if (v_failed) { printf("REPLAY RESULT: violated\n"); return 1; } printf("REPLAY RESULT: holds\n"); return 0; }
# define VFORALL(T, v, lo, hi, body) ({ int ok_ = 1; T v; for (v = (lo); v < (hi); v++) { if (!(body)) { ok_ = 0; } } ok_; })
#else
# define VIN_GET()  do { vin = nondet_vin(); } while (0)
# define VASSUME(c) __CPROVER_assume(c)
# define VASSERT(label, c) __CPROVER_assert((c), label)
# define VREACH(label) __CPROVER_assert(0, "vacuity-probe " label)
# define VNATIVE_MAIN(h)
#endif

#endif
