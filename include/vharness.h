/* vharness.h - shared between CBMC proof harnesses and the native replay of a counterexample.
 *
 * A harness declares ONE input record   struct vin_t { ...scalars and arrays only... };
 * and obtains it with VIN_GET().  Under CBMC the record is a single nondeterministic value (so that the whole
 * input shows up as one assignment to `vin` in the JSON trace); natively it is the initializer VIN_INIT that
 * bin/vcheck generated from that trace.
 *
 *   VASSUME(c)          precondition of the obligation
 *   VASSERT(label, c)   an obligation (function-level postcondition written in the harness)
 *   VREACH(label)       vacuity probe: an assertion that MUST fail; the driver treats SUCCESS as "vacuous"
 */
#ifndef VHARNESS_H
#define VHARNESS_H
#include <stddef.h>
#include <stdint.h>

#ifdef VNATIVE
# include <stdio.h>
# include <stdlib.h>
# include <string.h>
static int v_failed;
# define VIN_GET()  do { static const struct vin_t v_init_ = VIN_INIT; memcpy(&vin, &v_init_, sizeof vin); } while (0)
# define VASSUME(c) do { if (!(c)) { printf("REPLAY assumption-not-met: %s\n", #c); exit(3); } } while (0)
# define VASSERT(label, c) do { if (!(c)) { printf("REPLAY FAILED %s: %s\n", label, #c); v_failed = 1; } } while (0)
# define VREACH(label) do { } while (0)
# define VNATIVE_MAIN(h) int main(void) { h(); if (v_failed) { printf("REPLAY RESULT: violated\n"); return 1; } printf("REPLAY RESULT: holds\n"); return 0; }
# define VFORALL(T, v, lo, hi, body) ({ int ok_ = 1; T v; for (v = (lo); v < (hi); v++) { if (!(body)) { ok_ = 0; } } ok_; })
#else
# define VIN_GET()  do { vin = nondet_vin(); } while (0)
# define VASSUME(c) __CPROVER_assume(c)
# define VASSERT(label, c) __CPROVER_assert((c), label)
# define VREACH(label) __CPROVER_assert(0, "vacuity-probe " label)
# define VNATIVE_MAIN(h)
#endif

/* sodium_misuse() handling.  The harness sets v_misuse_expected before the call.
 *   CBMC:   the stub asserts that the handler is reached only when expected and ends the path (the real handler aborts);
 *           VCALL(stmt) asserts after a normal return that no misuse was expected.
 *   native: the stub longjmps back; VCALL compares what happened with what was expected; VMISUSED() tells the harness
 *           to skip the postconditions of a normal return. */
#define VMISUSE_DEFINE VMISUSE_DEFINE_
#ifdef VNATIVE
# include <setjmp.h>
# define VMISUSE_DEFINE_ int v_misuse_expected; static jmp_buf v_jb; static int v_misused; \
    void sodium_misuse(void) { v_misused = 1; longjmp(v_jb, 1); }
# define VCALL(stmt) do { v_misused = 0; if (!setjmp(v_jb)) { stmt; } \
    if (v_misused && !v_misuse_expected) { printf("REPLAY FAILED sodium_misuse called although the arguments are in contract\n"); v_failed = 1; } \
    if (!v_misused && v_misuse_expected) { printf("REPLAY FAILED call returned although the misuse handler was required\n"); v_failed = 1; } } while (0)
# define VMISUSED() (v_misused)
#else
# define VMISUSE_DEFINE_ int v_misuse_expected; \
    void sodium_misuse(void) { __CPROVER_assert(v_misuse_expected, "sodium_misuse reached only when the property requires it"); __CPROVER_assume(0); }
# define VCALL(stmt) do { stmt; __CPROVER_assert(!v_misuse_expected, "call returned although the misuse handler was required"); } while (0)
# define VMISUSED() (0)
#endif

#endif
