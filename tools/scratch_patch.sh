#!/bin/sh
# usage: scratch_patch.sh <patch.diff> <vcheck args...>   runs vcheck against a scratch copy of /repo with the patch applied
# (never touches /repo); evidence goes to the scratch area; the copy is removed afterwards.
cd "$(dirname "$0")/.."
p=$(readlink -f "$1"); shift
sc=/tmp/sp-$$; rm -rf $sc; cp -a /repo $sc; git -C $sc checkout -q -- .
git -C $sc apply "$p" || { echo "patch does not apply"; rm -rf $sc; exit 3; }
VERIF_REPO=$sc VERIF_WORK=/tmp/sp-work-$$ VERIF_REPLAY_OUT=/tmp/sp-work-$$/replay VERIF_SCRATCH_EVIDENCE=1 bin/vcheck "$@"; rc=$?
rm -rf $sc /tmp/sp-work-$$
exit $rc
