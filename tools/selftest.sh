#!/bin/sh
# usage: selftest.sh   self-test of the machinery on scratch copies of /repo (never /repo itself):
#   selftest/mutants/<Cxx>-*.diff  must make the quick check of <Cxx> report a VIOLATION (exit 1)
#   selftest/benign/*.diff         (behaviour-preserving refactors; first line of the name = property list in TARGETS below) must pass
cd "$(dirname "$0")/.."
rc=0
for f in selftest/mutants/*.diff; do
  p=$(basename $f | cut -d- -f1)
  tools/scratch_patch.sh $f $p --tier quick > /tmp/selftest.$$ 2>&1; r=$?
  if [ $r -eq 1 ] && grep -q '^VIOLATION' /tmp/selftest.$$; then echo "caught   $f"; else echo "MISSED   $f (exit $r)"; rc=1; fi
done
# benign refactors and the checks that look at the code they touch
run_benign() { f=$1; shift; tools/scratch_patch.sh $f "$@" > /tmp/selftest.$$ 2>&1; r=$?; if [ $r -eq 0 ]; then echo "quiet    $f ($*)"; else echo "ALARM    $f ($*) exit $r"; rc=1; fi; }
run_benign selftest/benign/aead-ietf-mac-chunking.diff C01 --only aead.f.chacha20poly1305_ietf
run_benign selftest/benign/secretstream-skip-empty-ad.diff C09 --only c09.f.pu
run_benign selftest/benign/pk2curve-mul-order.diff C06 --only c06.f.pk_to_curve25519
rm -f /tmp/selftest.$$
exit $rc
