#!/bin/sh
# usage: mutant_matrix.sh [ids...]   runs each seeded / selftest mutant against the quick check of its property on a
# scratch copy of /repo (never /repo itself); writes seeded/RESULTS.tsv lines: id property exit violation-lines
cd "$(dirname "$0")/.."
out=seeded/RESULTS.tsv
ids="$*"; [ -z "$ids" ] && ids=$(ls seeded | grep -v RESULTS)
for id in $ids; do
  d=seeded/$id; [ -f $d/patch.diff ] || continue
  prop=$(python3 -c "import json;print(json.load(open('$d/meta.json'))['property'])")
  sc=/tmp/mm-$id; rm -rf $sc; cp -a /repo $sc; git -C $sc checkout -q -- . 
  if ! git -C $sc apply $PWD/$d/patch.diff 2>/dev/null; then echo "$id\t$prop\tpatch-does-not-apply" >> $out; rm -rf $sc; continue; fi
  s=$(date +%s)
  VERIF_REPO=$sc VERIF_WORK=/tmp/mm-work-$id VERIF_REPLAY_OUT=/tmp/mm-work-$id/replay VERIF_SCRATCH_EVIDENCE=1 bin/vcheck $prop --tier quick > /tmp/mm-$id.log 2>&1; rc=$?
  v=$(grep -c '^VIOLATION' /tmp/mm-$id.log); first=$(grep '^VIOLATION' /tmp/mm-$id.log | head -1 | sed 's/.*replay=[^ ]*\/\([^/ ]*\)\.json/\1/')
  printf "%s\t%s\trc=%s\tviolations=%s\t%s\t%ss\n" "$id" "$prop" "$rc" "$v" "$first" "$(( $(date +%s) - s ))" >> $out
  rm -rf $sc /tmp/mm-work-$id
done
