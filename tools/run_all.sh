#!/bin/sh
# run every claimed check (quick tier) on the unchanged tree, sequentially; regenerates evidence/*.json
cd "$(dirname "$0")/.."
git -C /repo diff --quiet || { echo "/repo has uncommitted changes"; exit 9; }
for id in $(python3 -c "import json; print(' '.join(c['property_id'] for c in json.load(open('MANIFEST.json'))['checks']))"); do
  case " $* " in *" $id "*|"  ") ;; *) [ $# -gt 0 ] && continue;; esac
  s=$(date +%s); bin/vcheck $id --tier quick > work/run_$id.log 2>&1; rc=$?
  echo "$id rc=$rc $(( $(date +%s) - s ))s $(tail -1 work/run_$id.log)"
done
