#!/usr/bin/env python3
"""regenerates /verif/MANIFEST.json from tools/claims.json (one entry per claimed property) and validates it"""
import json, os, sys
V = os.path.dirname(os.path.dirname(os.path.abspath(__file__)))
claims = json.load(open(os.path.join(V, "tools", "claims.json")))
ids = [json.loads(l)["id"] for l in open(os.path.join(V, "properties.jsonl"))]
checks, na = [], []
for pid in ids:
    c = claims["claimed"].get(pid)
    if c:
        checks.append({
            "property_id": pid,
            "quick_cmd": "bin/vcheck %s --tier quick" % pid,
            "thorough_cmd": "bin/vcheck %s --tier thorough" % pid,
            "evidence_file": "evidence/%s.json" % pid,
            "replay_cmd_template": "bin/vcheck --replay {path}",
            "engine": "vcheck",
            "level_claimed": {"category": c["category"], "text": c["text"], "design_ref": c.get("design_ref", "DESIGN.md section 6, " + pid)},
            "level_note": c["note"],
            "technique": c.get("technique", "contract-based deductive verification (CBMC function and loop contracts, goto-instrument --dfcc) of the real translation units"),
        })
    else:
        na.append({"property_id": pid, "reason": claims["not_applicable"].get(pid, "no check built yet for this property (work in progress); not claimed")})
m = {
    "version": 1,
    "setup_cmd": "sh bin/setup.sh",
    "hooks": {"guard": "SODIUM_VERIF", "enable": "no source hooks: contracts, loop contracts, harnesses and stubs live in /verif and are attached to the unmodified translation units of /repo (goto-cc -include contracts/*.h, --loop-contracts-file); checks compile /repo/src with -DSODIUM_VERIF=1 which no repository file tests",
              "baseline_off_cmd": "make -C /repo -j8 check", "source_commits": claims.get("hook_commits", []), "add_only": True},
    "engines": [{"name": "vcheck", "path": "bin/vcheck", "serves_properties": sorted(claims["claimed"].keys()),
                 "kind_free_text": "driver for contract-based deductive verification with cbmc 6.11 (goto-cc, goto-instrument --dfcc contracts + loop contracts, SAT/kissat/z3 back ends), native replay of counterexamples against the real translation units"}],
    "checks": checks,
    "notes": claims.get("notes", ""),
    "not_applicable": na,
}
json.dump(m, open(os.path.join(V, "MANIFEST.json"), "w"), indent=1)
try:
    import jsonschema
    jsonschema.validate(m, json.load(open("/root/.vp/MANIFEST.schema.json")))
    print("MANIFEST.json valid: %d checks, %d not_applicable" % (len(checks), len(na)))
except ImportError:
    print("jsonschema not importable here; written without validation")
