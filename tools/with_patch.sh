#!/bin/sh
# usage: with_patch.sh <patch> <command...>   apply a seeded patch to /repo, run the command, always undo it
p="$(readlink -f "$1")"; shift
git -C /repo apply "$p" || exit 9
VERIF_SCRATCH_EVIDENCE=1 "$@"; rc=$?
git -C /repo checkout -- .
exit $rc
