#!/bin/sh
# prints, per property, the number of registered obligations by kind (U unbounded / F finite-complete / B bounded) and tier
cd "$(dirname "$0")/.."
bin/vcheck --list | python3 -c "
import sys,collections
c=collections.defaultdict(collections.Counter); q=collections.Counter()
for l in sys.stdin:
    f=l.split()
    if len(f)<5: continue
    for p in f[4].split(','):
        c[p][f[1]]+=1
        if f[2]=='quick': q[p]+=1
for p in sorted(c): print(p, ', '.join('%d %s' % (c[p][k],k) for k in 'UFB' if c[p][k]), '(quick tier: %d)' % q[p])
"
