#!/bin/sh
# usage: mkscratch.sh <dir>  -- scratch copy of /repo (with its build products) outside /repo and /verif
set -e
d="$1"
rm -rf "$d"
cp -a /repo "$d"
cd "$d"
git checkout -q -- . 2>/dev/null || true
./config.status >/dev/null 2>&1 || true
echo "$d ready"
