#!/usr/bin/env python3
"""print the sub-agent prompt for one property (only the property text + a scratch dir; nothing from /verif)"""
import json,sys
pid=sys.argv[1]; d=sys.argv[2]; extra=sys.argv[3] if len(sys.argv)>3 else ''
for l in open('/verif/properties.jsonl'):
    p=json.loads(l)
    if p['id']==pid: break
print(f"""You are helping test a verification framework by playing the role of a developer who introduces a subtle regression into the C library libsodium (jedisct1/libsodium).

You have your own private scratch copy of the repository, already configured and built in-tree (autotools), at: {d}
Work ONLY inside {d}. Never read or touch /repo or /verif. There is no network.

The semantic property you must break:

  Title: {p['title']}
  Statement: {p['statement']}
  Scope of quantification: {p['quantifier']['text']}
  Code the property is anchored in (relative to the repository root): {', '.join(p['anchors']['files'][:12])}

Your task: produce {('TWO different, independent changes' if not extra else extra)} to the library source under {d}/src/libsodium (each a small realistic edit, such as a developer's refactoring slip, an off-by-one, a dropped carry, a wrong constant, a mis-ordered check, a missing wipe, a guard on the wrong variable) such that, for each change taken alone:
  1. the library still compiles (`make -j8` in {d}), and
  2. the ENTIRE existing test suite still passes: `make -j8 check` in {d} must report `# PASS: 82` and `# FAIL: 0`, and
  3. the property above is genuinely violated on the real compiled library, and
  4. the violation needs something specific to manifest - an unusual input (particular length, particular byte values, a rare carry), a multi-step sequence of operations, a fault at a particular point, or two cooperating edit sites that each look fine alone - NOT something ordinary use would expose at once. Avoid trivial sabotage (e.g. "always return 0"); prefer changes in the default (x86-64, as configured) code path that the shipped binary actually runs, but a change in the portable C/reference path that a no-asm build would run is acceptable too if you say so.

For each change i (1, 2) write into {d}/out/change<i>/ :
  - patch.diff : `git diff` of the change alone against the pristine tree (must apply with `git apply` on a pristine checkout),
  - demo.c (or demo.sh) : a small stand-alone demonstration that links against {d}/src/libsodium/.libs/libsodium.a (include path {d}/src/libsodium/include) which exits 0 on the pristine library and exits non-zero (printing what went wrong) when the change is applied. Give the exact build+run command in a comment at its top,
  - meta.json : {{"property": "{pid}", "summary": "...what was changed and in which function...", "needs_to_manifest": "...the specific input/sequence/condition...", "build_path": "default-x86-64 | portable-only", "commands_run": ["..."], "test_suite_result": "PASS 82 / FAIL 0"}}.

Procedure you must actually carry out for each change: start from a pristine tree (`git -C {d} checkout -- .`), apply the edit, `make -j8`, `make -j8 check` (confirm 82 pass), build and run the demo (must fail), save `git diff > out/change<i>/patch.diff`, then `git checkout -- .`, `make -j8`, rebuild and run the demo against the pristine library (must pass). Leave the tree pristine and rebuilt at the end. Keep `out/` (it is untracked).

Final answer: a short report listing, per change, the file/function edited, what is needed to trigger it, and confirmation of the four points above with the commands you ran. Do not include anything else.""")
