#!/usr/bin/env python3
"""writes contracts/codecs_enc.h from vlib/b64spec.py (run after editing the specification text)"""
import os, sys
here = os.path.dirname(os.path.abspath(__file__)); sys.path.insert(0, os.path.join(here, ".."))
from vlib import b64spec
open(os.path.join(here, "..", "contracts", "codecs_enc.h"), "w").write(b64spec.header())
print("contracts/codecs_enc.h written")
