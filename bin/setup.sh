#!/bin/sh
# MANIFEST.setup_cmd: offline; creates the solver shim (cbmc --z3 must find z3 5.1) and byte-compiles the driver
set -e
cd "$(dirname "$0")/.."
mkdir -p bin/solver-shims work replay/out evidence
if command -v z3-new >/dev/null 2>&1; then
  printf '#!/bin/sh\nexec z3-new "$@"\n' > bin/solver-shims/z3
  chmod +x bin/solver-shims/z3
fi
python3 -m compileall -q vlib >/dev/null
cbmc --version >/dev/null && goto-cc --version >/dev/null && kissat --version >/dev/null
echo setup ok
