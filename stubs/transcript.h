/* Ghost transcript: ASSUMED contracts of the primitives, in executable form.
 *
 * Every stub (a) checks the part of the callee's precondition that concerns memory (input readable for the stated
 * length, output writable), (b) appends an event (operation, pointer identities, lengths, scalar arguments, and a
 * snapshot of short inputs: nonce, key, <= 16 data bytes) to the ghost log, (c) havocs its output within its frame -
 * or, where a later step consumes the output (Poly1305 key block, derived sub-key, tag, shared secret), copies it
 * from the harness input record so that the value is an arbitrary but known function result.
 * The composition layers are verified against these contracts; the primitives themselves are C03/C04/C05 business.
 *
 * The same file compiles natively for counterexample replay (outputs then come from a fixed byte pattern).
 * A harness selects the stubs it needs with V_STUB_* before including this file.
 */
#ifndef V_TRANSCRIPT_H
#define V_TRANSCRIPT_H
#include <stddef.h>
#include <stdint.h>
#include <string.h>

enum { V_OP_NONE = 0, V_OP_STREAM, V_OP_XOR, V_OP_POLY_INIT, V_OP_POLY_UPDATE, V_OP_POLY_FINAL, V_OP_POLY_ONESHOT,
       V_OP_POLY_VERIFY, V_OP_HCHACHA, V_OP_HSALSA, V_OP_MEMZERO, V_OP_RANDOM, V_OP_SCALARMULT, V_OP_SCALARMULT_BASE,
       V_OP_MEMMOVE, V_OP_GH_INIT, V_OP_GH_UPDATE, V_OP_GH_FINAL, V_OP_HASH, V_OP_GH_ONESHOT };
/* cipher families for STREAM/XOR events */
enum { V_C_CHACHA20 = 1, V_C_CHACHA20_IETF, V_C_CHACHA20_IETF_EXT, V_C_SALSA20, V_C_XSALSA20, V_C_XCHACHA20 };

/* Events hold scalars only (the log is indexed symbolically once paths with different event counts merge; arrays
 * inside the entries make CBMC's symbolic execution explode).  Contents of short inputs are therefore compared, at
 * the time of the call, with reference values supplied by the harness and recorded as flag bits. */
struct v_ev {
    int op, cipher;
    const void *out, *in, *st;          /* pointer identities */
    const void *nptr, *kptr;
    unsigned long long len, ic;
    unsigned flags;                     /* V_F_* */
    uint64_t d64;                       /* le64 of the data when len == 8 */
    unsigned char gin; int has_gin;     /* XOR events: the input byte at ghost offset v_gidx (when v_gidx < len) */
};
enum { V_F_K_USER = 1,      /* key bytes == v_ref_key            (the caller's key)                        */
       V_F_K_SUB = 2,       /* key bytes == v_subkey             (HChaCha20 / HSalsa20 output)             */
       V_F_K_KS0 = 4,       /* key bytes == v_ks0[0..32)         (first half of keystream block 0)         */
       V_F_K_XB = 8,        /* key bytes == v_xb[0..32)          (first half of the encrypted block 0)     */
       V_F_N_A = 16,        /* nonce / 16-byte input == v_ref_na (as many bytes as the primitive reads)    */
       V_F_N_B = 32,        /* nonce == v_ref_nb                                                           */
       V_F_D_ZERO = 64,     /* len <= 16 and all data bytes are zero                                       */
       V_F_BLK0 = 128,      /* XOR over <= 64 bytes whose input starts with 0^32 || v_ref_first[0 .. v_ref_first_len) */
       V_F_K_AUX = 256,     /* key bytes == v_ref_kaux                                                     */
       V_F_D_REF = 512,     /* len <= 16 and data bytes == v_ref_d[0..len)                                 */
       V_F_BLKREF = 1024,   /* in-place XOR over <= 64 bytes whose input == the reference block for its ordinal */
       V_F_D_REF64 = 2048 };/* 64 data bytes == v_ref_d64                                                  */
const unsigned char *v_ref_blks[3]; size_t v_ref_blk_lens[3];   /* expected inputs of the k-th in-place short XOR */
const unsigned char *v_xbs[3];                                   /* its result */
unsigned v_short_xor_count;
const unsigned char *v_ref_d64;
const unsigned char *v_ref_key, *v_ref_na, *v_ref_nb, *v_ref_first, *v_ref_kaux, *v_ref_d;
size_t v_ref_first_len;             /* number of valid bytes in v_ref_first (<= 32) */
#ifndef V_LOG_MAX
# define V_LOG_MAX 24
#endif
struct v_ev v_log[V_LOG_MAX];
unsigned v_nlog;
int v_log_overflow;

static struct v_ev *v_push(int op)
{
    if (v_nlog >= V_LOG_MAX) { v_log_overflow = 1; v_nlog = V_LOG_MAX - 1; }
    struct v_ev *e = &v_log[v_nlog++];
    e->op = op; e->flags = 0; e->d64 = 0; e->has_gin = 0;
    return e;
}
static int v_eq(const unsigned char *a, const unsigned char *b, size_t n) { size_t i; int z = 1; for (i = 0; i < n; i++) if (a[i] != b[i]) z = 0; return z; }
static int v_is_zero(const unsigned char *p, size_t n) { size_t i; int z = 1; for (i = 0; i < n; i++) if (p[i]) z = 0; return z; }
static uint64_t v_le64(const unsigned char *p) { uint64_t v = 0; int i; for (i = 7; i >= 0; i--) v = (v << 8) | p[i]; return v; }

#ifdef VNATIVE
static unsigned v_lcg = 12345;
static void v_out(void *p, unsigned long long len) { unsigned long long i; for (i = 0; i < len; i++) { v_lcg = v_lcg * 1103515245u + 12345u; ((unsigned char *) p)[i] = (unsigned char) (v_lcg >> 16); } }
static void v_in(const void *p, unsigned long long len) { if (len) { volatile unsigned char t = ((const unsigned char *) p)[0] ^ ((const unsigned char *) p)[len - 1]; (void) t; } }
#else
static void v_out(void *p, unsigned long long len)
{
    __CPROVER_assert(len == 0 || __CPROVER_w_ok(p, len), "assumed contract of primitive: output buffer writable for the stated length");
    if (len != 0) __CPROVER_havoc_slice(p, len);
}
static void v_in(const void *p, unsigned long long len)
{
    __CPROVER_assert(len == 0 || __CPROVER_r_ok(p, len), "assumed contract of primitive: input buffer readable for the stated length");
}
#endif
static void v_fixed_out(void *p, const unsigned char *src, size_t n)
{
    size_t i;
#ifndef VNATIVE
    __CPROVER_assert(__CPROVER_w_ok(p, n), "assumed contract of primitive: output buffer writable for the stated length");
#endif
    for (i = 0; i < n; i++) ((unsigned char *) p)[i] = src[i];
}

/* values that later steps consume; the harness points these at fields of its input record */
const unsigned char *v_ks0;     /* 64 bytes: first keystream block (Poly1305 key block) */
const unsigned char *v_subkey;  /* 32 bytes: HChaCha20 / HSalsa20 output */
const unsigned char *v_tag;     /* 16 bytes: Poly1305 tag */
const unsigned char *v_xb;      /* 64 bytes: result of a stream XOR over a block of <= 64 bytes (secretbox block 0) */
unsigned long long v_gidx = ~0ULL; /* ghost offset into the input of long XOR events */
unsigned long long v_gidx_mm = ~0ULL; /* ghost offset for the memmove stub (defaults to v_gidx) */

static unsigned v_kflags(const unsigned char *k)
{
    unsigned f = 0;
    if (v_ref_key && v_eq(k, v_ref_key, 32)) f |= V_F_K_USER;
    if (v_subkey && v_eq(k, v_subkey, 32)) f |= V_F_K_SUB;
    if (v_ks0 && v_eq(k, v_ks0, 32)) f |= V_F_K_KS0;
    if (v_xb && v_eq(k, v_xb, 32)) f |= V_F_K_XB;
    if (v_ref_kaux && v_eq(k, v_ref_kaux, 32)) f |= V_F_K_AUX;
    return f;
}
static unsigned v_nflags(const unsigned char *n, size_t nlen)
{
    unsigned f = 0;
    if (v_ref_na && v_eq(n, v_ref_na, nlen)) f |= V_F_N_A;
    if (v_ref_nb && v_eq(n, v_ref_nb, nlen)) f |= V_F_N_B;
    return f;
}
static unsigned v_dflags(const unsigned char *in, unsigned long long len)
{
    unsigned f = 0;
    if (len <= 16 && v_is_zero(in, (size_t) len)) f |= V_F_D_ZERO;
    if (len <= 16 && v_ref_d && v_eq(in, v_ref_d, (size_t) len)) f |= V_F_D_REF;
    return f;
}
/* ------------------------------------------------------------------------------------------------ stream ciphers */
static int v_stream(int cipher, unsigned char *c, unsigned long long clen, const unsigned char *n, size_t nlen, const unsigned char *k)
{
    struct v_ev *e = v_push(V_OP_STREAM);
    e->cipher = cipher; e->out = c; e->len = clen; e->nptr = n; e->kptr = k; e->ic = 0;
    v_in(n, nlen); v_in(k, 32); e->flags = v_kflags(k) | v_nflags(n, nlen);
    if (clen <= 64 && v_ks0 != NULL) v_fixed_out(c, v_ks0, (size_t) clen); else v_out(c, clen);
    return 0;
}
static int v_xor(int cipher, unsigned char *c, const unsigned char *m, unsigned long long mlen, const unsigned char *n, size_t nlen,
                 unsigned long long ic, const unsigned char *k)
{
    struct v_ev *e = v_push(V_OP_XOR);
    e->cipher = cipher; e->out = c; e->in = m; e->len = mlen; e->nptr = n; e->kptr = k; e->ic = ic;
    v_in(n, nlen); v_in(k, 32); v_in(m, mlen);
    unsigned fl = v_kflags(k) | v_nflags(n, nlen);
#ifndef VNATIVE
    /* precondition of the stream XOR primitives: in place (c == m) or non-overlapping */
    __CPROVER_assert(mlen == 0 || c == m || !__CPROVER_same_object(c, m) || c + mlen <= m || m + mlen <= c,
                     "assumed contract of stream xor: output equals input pointer or does not overlap it");
#else
    if (mlen != 0 && c != m && !((uintptr_t) c + mlen <= (uintptr_t) m || (uintptr_t) m + mlen <= (uintptr_t) c)) {
        printf("REPLAY FAILED stream xor called with partially overlapping input and output (its documented precondition is: identical or disjoint)\n"); v_failed = 1;
    }
#endif
    if (mlen >= 32 && mlen <= 64 && v_ref_first && v_ref_first_len <= mlen - 32 && v_is_zero(m, 32) && v_eq(m + 32, v_ref_first, v_ref_first_len)) fl |= V_F_BLK0;
    if (v_gidx < mlen) { e->gin = m[v_gidx]; e->has_gin = 1; }
    if (mlen <= 64 && c == m) {                      /* in-place block: result is the k-th arbitrary-but-known block */
        unsigned kx = v_short_xor_count < 3 ? v_short_xor_count : 2;
        const unsigned char *src = v_xbs[kx] ? v_xbs[kx] : (kx == 0 ? v_xb : NULL);
        if (v_ref_blks[kx] && v_ref_blk_lens[kx] == mlen && v_eq(m, v_ref_blks[kx], (size_t) mlen)) fl |= V_F_BLKREF;
        v_short_xor_count++;
        e->flags = fl;
        if (src) v_fixed_out(c, src, (size_t) mlen); else v_out(c, mlen);
    } else {
        e->flags = fl;
        v_out(c, mlen);
    }
    return 0;
}
#ifdef V_STUB_CHACHA20
int crypto_stream_chacha20(unsigned char *c, unsigned long long clen, const unsigned char *n, const unsigned char *k) { return v_stream(V_C_CHACHA20, c, clen, n, 8, k); }
int crypto_stream_chacha20_xor(unsigned char *c, const unsigned char *m, unsigned long long mlen, const unsigned char *n, const unsigned char *k) { return v_xor(V_C_CHACHA20, c, m, mlen, n, 8, 0, k); }
int crypto_stream_chacha20_xor_ic(unsigned char *c, const unsigned char *m, unsigned long long mlen, const unsigned char *n, uint64_t ic, const unsigned char *k) { return v_xor(V_C_CHACHA20, c, m, mlen, n, 8, ic, k); }
int crypto_stream_chacha20_ietf(unsigned char *c, unsigned long long clen, const unsigned char *n, const unsigned char *k) { return v_stream(V_C_CHACHA20_IETF, c, clen, n, 12, k); }
int crypto_stream_chacha20_ietf_xor(unsigned char *c, const unsigned char *m, unsigned long long mlen, const unsigned char *n, const unsigned char *k) { return v_xor(V_C_CHACHA20_IETF, c, m, mlen, n, 12, 0, k); }
int crypto_stream_chacha20_ietf_xor_ic(unsigned char *c, const unsigned char *m, unsigned long long mlen, const unsigned char *n, uint32_t ic, const unsigned char *k) { return v_xor(V_C_CHACHA20_IETF, c, m, mlen, n, 12, ic, k); }
int crypto_stream_chacha20_ietf_ext(unsigned char *c, unsigned long long clen, const unsigned char *n, const unsigned char *k) { return v_stream(V_C_CHACHA20_IETF_EXT, c, clen, n, 12, k); }
int crypto_stream_chacha20_ietf_ext_xor_ic(unsigned char *c, const unsigned char *m, unsigned long long mlen, const unsigned char *n, uint32_t ic, const unsigned char *k) { return v_xor(V_C_CHACHA20_IETF_EXT, c, m, mlen, n, 12, ic, k); }
#endif
#ifdef V_STUB_XCHACHA20
int crypto_stream_xchacha20(unsigned char *c, unsigned long long clen, const unsigned char *n, const unsigned char *k) { return v_stream(V_C_XCHACHA20, c, clen, n, 24, k); }
int crypto_stream_xchacha20_xor_ic(unsigned char *c, const unsigned char *m, unsigned long long mlen, const unsigned char *n, uint64_t ic, const unsigned char *k) { return v_xor(V_C_XCHACHA20, c, m, mlen, n, 24, ic, k); }
#endif
#ifdef V_STUB_SALSA20
int crypto_stream_salsa20(unsigned char *c, unsigned long long clen, const unsigned char *n, const unsigned char *k) { return v_stream(V_C_SALSA20, c, clen, n, 8, k); }
int crypto_stream_salsa20_xor(unsigned char *c, const unsigned char *m, unsigned long long mlen, const unsigned char *n, const unsigned char *k) { return v_xor(V_C_SALSA20, c, m, mlen, n, 8, 0, k); }
int crypto_stream_salsa20_xor_ic(unsigned char *c, const unsigned char *m, unsigned long long mlen, const unsigned char *n, uint64_t ic, const unsigned char *k) { return v_xor(V_C_SALSA20, c, m, mlen, n, 8, ic, k); }
#endif
#ifdef V_STUB_XSALSA20
int crypto_stream_xsalsa20(unsigned char *c, unsigned long long clen, const unsigned char *n, const unsigned char *k) { return v_stream(V_C_XSALSA20, c, clen, n, 24, k); }
int crypto_stream_xsalsa20_xor_ic(unsigned char *c, const unsigned char *m, unsigned long long mlen, const unsigned char *n, uint64_t ic, const unsigned char *k) { return v_xor(V_C_XSALSA20, c, m, mlen, n, 24, ic, k); }
int crypto_stream_xsalsa20_xor(unsigned char *c, const unsigned char *m, unsigned long long mlen, const unsigned char *n, const unsigned char *k) { return v_xor(V_C_XSALSA20, c, m, mlen, n, 24, 0, k); }
#endif
#ifdef V_STUB_HCHACHA20
int crypto_core_hchacha20(unsigned char *out, const unsigned char *in, const unsigned char *k, const unsigned char *c)
{
    struct v_ev *e = v_push(V_OP_HCHACHA);
    e->out = out; e->in = in; e->kptr = k; e->st = c; v_in(in, 16); v_in(k, 32); e->flags = v_kflags(k) | v_nflags(in, 16);
    v_fixed_out(out, v_subkey, 32);
    return 0;
}
#endif
#ifdef V_STUB_HSALSA20
int crypto_core_hsalsa20(unsigned char *out, const unsigned char *in, const unsigned char *k, const unsigned char *c)
{
    struct v_ev *e = v_push(V_OP_HSALSA);
    e->out = out; e->in = in; e->kptr = k; e->st = c; v_in(in, 16); v_in(k, 32); e->flags = v_kflags(k) | v_nflags(in, 16);
    v_fixed_out(out, v_subkey, 32);
    return 0;
}
#endif

/* ------------------------------------------------------------------------------------------------ Poly1305 */
#ifdef V_STUB_POLY1305
#include "crypto_onetimeauth_poly1305.h"
#ifdef V_POLY_STREAM
/* ghost MAC-input stream: total length absorbed since the last init, and the byte absorbed at ghost stream offset v_mac_g */
unsigned long long v_mac_total, v_mac_g = ~0ULL; unsigned char v_mac_gbyte; int v_mac_has, v_mac_bad_st; const void *v_mac_st;
#endif
int crypto_onetimeauth_poly1305_init(crypto_onetimeauth_poly1305_state *state, const unsigned char *key)
{
    struct v_ev *e = v_push(V_OP_POLY_INIT);
    e->st = state; e->kptr = key; v_in(key, 32); e->flags = v_kflags(key); v_out(state, sizeof *state);
#ifdef V_POLY_STREAM
    v_mac_total = 0; v_mac_has = 0; v_mac_bad_st = 0; v_mac_st = state;
#endif
    return 0;
}
int crypto_onetimeauth_poly1305_update(crypto_onetimeauth_poly1305_state *state, const unsigned char *in, unsigned long long inlen)
{
#ifdef V_POLY_STREAM
    /* stream mode: the MAC input is the concatenation of all updates, however it is chunked; no event is logged */
    v_in(in, inlen);
    if (state != v_mac_st) v_mac_bad_st = 1;
    if (v_mac_g >= v_mac_total && v_mac_g - v_mac_total < inlen) { v_mac_gbyte = in[v_mac_g - v_mac_total]; v_mac_has = 1; }
    v_mac_total += inlen;
    return 0;
#endif
    struct v_ev *e = v_push(V_OP_POLY_UPDATE);
    e->st = state; e->in = in; e->len = inlen; v_in(in, inlen);
    e->flags = v_dflags(in, inlen) | ((inlen == 64 && v_ref_d64 && v_eq(in, v_ref_d64, 64)) ? V_F_D_REF64 : 0); if (inlen == 8) e->d64 = v_le64(in);
    return 0;
}
int crypto_onetimeauth_poly1305_final(crypto_onetimeauth_poly1305_state *state, unsigned char *out)
{
    struct v_ev *e = v_push(V_OP_POLY_FINAL);
#ifdef V_POLY_STREAM
    if (state != v_mac_st) v_mac_bad_st = 1;
#endif
    e->st = state; e->out = out; v_fixed_out(out, v_tag, 16);
    return 0;
}
int crypto_onetimeauth_poly1305(unsigned char *out, const unsigned char *in, unsigned long long inlen, const unsigned char *k)
{
    struct v_ev *e = v_push(V_OP_POLY_ONESHOT);
    e->out = out; e->in = in; e->len = inlen; e->kptr = k; v_in(in, inlen); v_in(k, 32); e->flags = v_kflags(k); v_fixed_out(out, v_tag, 16);
    return 0;
}
int v_poly_verify_ret;   /* arbitrary result of the one-shot verification */
int crypto_onetimeauth_poly1305_verify(const unsigned char *h, const unsigned char *in, unsigned long long inlen, const unsigned char *k)
{
    struct v_ev *e = v_push(V_OP_POLY_VERIFY);
    e->st = h; e->in = in; e->len = inlen; e->kptr = k; v_in(h, 16); v_in(in, inlen); v_in(k, 32); e->flags = v_kflags(k);
    return v_poly_verify_ret;
}
#endif

/* ------------------------------------------------------------------------------------------------ wiping, randomness */
#ifdef V_STUB_MEMZERO
void sodium_memzero(void *const pnt, const size_t len)
{
#ifndef V_MEMZERO_SILENT
    struct v_ev *e = v_push(V_OP_MEMZERO);
    e->out = pnt; e->len = len;
#endif
    memset(pnt, 0, len);
}
#endif
#ifdef V_STUB_MEMMOVE
/* assumed libc contract, over-approximated: memmove(d, s, n) reads s[0..n), writes d[0..n); the bytes written are left
 * arbitrary except the first 64 and the one at the ghost offset, which receive the source bytes (read before anything is written).
 * Sound for statements about one arbitrary byte; avoids CBMC's symbolic-length memmove blow-up. */
void *memmove(void *d, const void *s, size_t n)
{
    unsigned char g = 0, head[64]; int has = 0; size_t i, nh = n < 64 ? n : 64;
    unsigned long long gi = v_gidx_mm != ~0ULL ? v_gidx_mm : v_gidx;
    v_in(s, n);                                  /* (not logged: a libc call, not a primitive) */
    for (i = 0; i < 64; i++) if (i < nh) head[i] = ((const unsigned char *) s)[i];      /* the first 64 bytes are copied exactly */
    if (gi < n) { g = ((const unsigned char *) s)[gi]; has = 1; }
    v_out(d, n);
    for (i = 0; i < 64; i++) if (i < nh) ((unsigned char *) d)[i] = head[i];
    if (has) ((unsigned char *) d)[gi] = g;
    return d;
}
#endif
#ifdef V_STUB_RANDOMBYTES
void randombytes_buf(void *const buf, const size_t size)
{
    struct v_ev *e = v_push(V_OP_RANDOM);
    e->out = buf; e->len = size; v_out(buf, size);
}
#endif

#define V_EV(i) (v_log[i])

#endif
